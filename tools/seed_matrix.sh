#!/bin/bash
# ONLY=<regex> restricts the ids (e.g. ONLY="-[cd]$"); TIER args are passed to ./check
# run every seeded change against the check of its own property (quick tier, thorough for those marked); prints one line per change
cd /verif
for d in seeded/*/; do
  id=$(basename $d); p=${id%-*}
  if [ -n "${ONLY:-}" ] && ! echo "$id" | grep -Eq -- "$ONLY"; then continue; fi
  if grep -q '"superseded"' $d/meta.json; then echo "$id: superseded by a repair of /repo (no longer changes behaviour)"; continue; fi
  patch=$d/patch.diff; [ -f $d/patch.head.diff ] && patch=$d/patch.head.diff
  if ! git -C /repo apply --check /verif/$patch 2>/dev/null; then echo "$id: patch does not apply on HEAD"; continue; fi
  git -C /repo apply /verif/$patch
  out=$(timeout 1800 ./check $p "$@" 2>&1)
  rc=$?
  git -C /repo checkout -- .
  how=$(echo "$out" | grep -m1 "VIOLATION" | sed 's/.*replay=\/verif\/evidence\/replay\///' | cut -c1-110)
  echo "$id: exit $rc  $how"
done
