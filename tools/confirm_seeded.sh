#!/bin/bash
# Confirm sub-agent seeded changes in a scratch worktree of /repo HEAD: tests pass with the change, demo fails with it,
# demo passes without it.  usage: confirm_seeded.sh C15 a [C15 b ...]   (sources: /tmp/wt/out/<id>/<variant>)
set -u
WT=/tmp/confirm_wt
git -C /repo worktree remove --force $WT 2>/dev/null
git -C /repo worktree add -q --detach $WT HEAD || exit 3
while [ $# -ge 2 ]; do
  id=$1; v=$2; shift 2
  src=${SEED_SRC:-/tmp/wt/out}/$id/$v
  dst=/verif/seeded/$id-$v
  [ -f $src/patch.diff ] || { echo "$id-$v: no patch"; continue; }
  git -C $WT checkout -q -- . ; git -C $WT clean -fdq
  demo=$(ls $src/demo*.py | head -1)
  cd $WT
  PYTHONPATH=$WT/src timeout 300 /venv/bin/python $demo >/tmp/confirm_clean.log 2>&1; rc_clean=$?
  if ! git -C $WT apply $src/patch.diff 2>/tmp/confirm_apply.log; then echo "$id-$v: patch does not apply on HEAD"; continue; fi
  PYTHONPATH=$WT/src timeout 900 /venv/bin/python -m pytest -q -p no:cacheprovider --timeout=300 --ignore=tests/rmq -x -q >/tmp/confirm_tests.log 2>&1; rc_tests=$?
  PYTHONPATH=$WT/src timeout 300 /venv/bin/python $demo >/tmp/confirm_mut.log 2>&1; rc_mut=$?
  echo "$id-$v: demo_clean_rc=$rc_clean tests_with_change_rc=$rc_tests demo_with_change_rc=$rc_mut"
  if [ $rc_clean -eq 0 ] && [ $rc_tests -eq 0 ] && [ $rc_mut -ne 0 ]; then
    mkdir -p $dst; cp $src/patch.diff $dst/; cp $demo $dst/; 
    python3 - "$src/meta.json" "$dst/meta.json" "$id" <<PY
import json,sys
m=json.load(open(sys.argv[1]))
m['property']=sys.argv[3]
m['confirmed']={'at':'HEAD of /repo (with fix commits)','demo_on_clean_tree':'exit 0','tests_with_change':'186 passed (tests/rmq ignored)','demo_with_change':'non-zero exit',
 'ran':['git apply patch.diff in a scratch worktree','pytest -q --ignore=tests/rmq','python demo.py with PYTHONPATH=<worktree>/src']}
json.dump(m,open(sys.argv[2],'w'),indent=1)
PY
    echo "   kept -> $dst"
  fi
done
cd /; git -C /repo worktree remove --force $WT
