#!/bin/bash
# run every claimed check on the current tree (quick tier); prints one summary line per property
cd /verif
for p in $(python3 -c "import json;print(' '.join(c['property_id'] for c in json.load(open('MANIFEST.json'))['checks']))"); do
  timeout 1500 ./check $p "$@" 2>&1 | grep -v WARNING | tail -1
done
