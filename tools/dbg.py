"""dev helper: python3-vt tools/dbg.py <target> <obligation-substring> <spec expr> [<spec expr> ...]
evaluates spec expressions (post-state, old() allowed) in the counter-model of the first refuted matching obligation"""
import ast, sys, z3
sys.path.insert(0, '/verif')
from pyvc import verify, smt
target, sub, exprs = sys.argv[1], sys.argv[2], sys.argv[3:]
r = verify.verify_target(target, ['/verif/contracts'], solve=False)
eng = r.engine
print(r.status, r.message, len(r.obligations))
for ob in r.obligations:
    if sub in ob.name:
        verify.discharge(eng, ob)
        print(ob.name, 'proved' if ob.proved else 'refuted' if ob.refuted else 'unknown', ' path:', ' '.join(ob.st.notes[-30:]))
        if ob.refuted and ob.verdict.model is not None:
            m, st = ob.verdict.model, ob.st
            env = dict(ob.st.loc)
            env.update(eng.unit_env)
            if getattr(ob, 'exc', None) is not None:
                env['exc'] = ob.exc
                print('  escaping:', verify.class_name_of(eng, m, st, ob.exc.term))
            for e in exprs:
                try:
                    v = eng.sev(st, ast.parse(e, mode='eval').body, env, eng.unit_contract.module)
                    t = v.term if hasattr(v, 'term') else eng.to_term(st, v)
                    print('  ', e, '=>', str(m.eval(t, model_completion=True))[:200])
                except Exception as ex:
                    print('  ', e, '!!', type(ex).__name__, ex)
            break
if '--pc' in sys.argv:
    pat = sys.argv[sys.argv.index('--pc') + 1]
    for ob in r.obligations:
        if sub in ob.name and ob.refuted:
            for k_, c_ in enumerate(ob.pc):
                t = ' '.join(str(c_).split())
                if pat in t:
                    print('PC', k_, t[:260])
            break
