#!/bin/bash
# Parallel version of seed_matrix.sh: every property is a lane with its own copy of /verif and, per seeded change, its own
# copy of /repo's HEAD source with the change applied (PYVC_REPO_SRC); /repo itself is never touched.  Results are for the
# record in DESIGN.md only -- committed evidence always comes from ./check run in /verif against /repo.
# usage: tools/seed_matrix_par.sh [LANES=5] ; ONLY=<regex> restricts the ids
LANES=${1:-5}
ROOT=/tmp/lanes
rm -rf $ROOT; mkdir -p $ROOT
lane() {
  p=$1; L=$ROOT/$p; mkdir -p $L; rsync -a --exclude .git /verif/ $L/verif/
  for d in /verif/seeded/$p-*/; do
    id=$(basename $d)
    if [ -n "${ONLY:-}" ] && ! echo "$id" | grep -Eq -- "$ONLY"; then continue; fi
    if grep -q '"superseded"' $d/meta.json; then echo "$id: superseded by a repair of /repo (no longer changes behaviour)"; continue; fi
    patch=$d/patch.diff; [ -f $d/patch.head.diff ] && patch=$d/patch.head.diff
    rm -rf $L/src; mkdir -p $L/src; git -C /repo archive HEAD src | tar -x -C $L/src
    if ! (cd $L/src && patch -p1 -s --dry-run < $patch >/dev/null 2>&1); then echo "$id: patch does not apply on HEAD"; continue; fi
    (cd $L/src && patch -p1 -s < $patch)
    out=$(cd $L/verif && PYVC_REPO_SRC=$L/src/src timeout 2400 ./check $p --jobs 4 2>&1); rc=$?
    how=$(echo "$out" | grep -m1 "VIOLATION" | sed 's/.*replay=.*\/evidence\/replay\///' | cut -c1-110)
    echo "$id: exit $rc  $how"
  done
}
export -f lane; export ROOT ONLY
for i in $(seq -w 1 20); do echo C$i; done | xargs -P $LANES -I{} bash -c 'lane {}'
rm -rf $ROOT
