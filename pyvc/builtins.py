# -*- coding: utf-8 -*-
"""pyvc.builtins -- Python builtins, container methods, external-library entry points, user calls, awaits."""
from __future__ import annotations

import ast
from typing import List

import z3

from . import smt
from .calls import CtxV, KwDictV, PartialV, WrappedV
from .smt import (AND, FALSE, I, NOT, OR, S, TRUE, Val, b_of, boolv, i_of, intv, is_bool, is_int, is_none, is_ref,
                  is_str, none, r_of, ref, s_of, strv)
from .values import (CoroV, IterV, SV, Args, BoolTermV, BoundV, BuiltinV, ClassV, Frame, FuncV, LambdaV, ModuleV, Out, RawV,
                     SeqTermV, St, SuperV, TupleV, Unsupported, V)


NOOP_BUILTINS = {
    'warnings.warn', 'print', 'logging.getLogger',
}

DICT_METHODS = {'get', 'setdefault', 'pop', 'items', 'keys', 'values', 'update', 'copy', 'clear', '__contains__', '__iter__', 'popitem'}
LIST_METHODS = {'append', 'pop', 'extend', 'remove', 'copy', 'index', 'insert', 'clear', '__iter__'}
SET_METHODS = {'add', 'discard', 'update', 'clear', 'copy', 'remove'}
STR_METHODS = {'startswith', 'endswith', 'split', 'join', 'strip', 'format', 'rpartition', 'partition', 'lower', 'upper'}


class BuiltinMixin:
    # ------------------------------------------------------------------ materialisation of extra value kinds
    def to_term_ext(self, st, v):
        if isinstance(v, KwDictV):
            return self.materialise_kwdict(st, v).term
        if isinstance(v, PartialV):
            return self._materialise(st, v, self.cls('functools.partial'))
        if isinstance(v, (CoroV, WrappedV, CtxV, IterV)):
            return self._materialise(st, v, self.cls('object'))
        raise Unsupported(f'cannot materialise {v!r}')

    def materialise_kwdict(self, st, v: KwDictV) -> SV:
        if getattr(v, '_sv', None) is not None:
            return v._sv
        d = self.alloc(st, self.cls('dict'))
        r = r_of(d.term)
        if v.rest is not None:
            rr = r_of(v.rest.term)
            st.DH = z3.Store(st.DH, r, z3.Select(st.DH, rr))
            st.DV = z3.Store(st.DV, r, z3.Select(st.DV, rr))
            st.DL = z3.Store(st.DL, r, z3.Select(st.DL, rr))
        else:
            st.DH = z3.Store(st.DH, r, z3.K(Val, FALSE))
            st.DL = z3.Store(st.DL, r, I(0))
        for k, x in v.items.items():
            self.dict_set(st, r, strv(S(k)), self.to_term(st, x))
        v._sv = d
        return d

    # ------------------------------------------------------------------ builtin functions
    def call_builtin(self, st: St, name: str, args: Args, node=None) -> List[Out]:
        lib = self.lib_contract(name)
        if lib is not None:
            return self.apply_contract(st, lib, None, BuiltinV(name), args, node)
        m = getattr(self, 'bi_' + name.replace('.', '_'), None)
        if m is not None:
            return m(st, args, node)
        if name in NOOP_BUILTINS:
            return self.ok(st, self.py_none())
        if name.startswith('logging.') or '.logger.' in name or name.startswith('_LOGGER.') or name.startswith('LOGGER.'):
            self.note('logging calls are no-ops that do not raise (A-LOG)')
            return self.ok(st, self.py_none())
        raise Unsupported(f'builtin/external function {name}', node)

    def one_pos(self, args: Args, n, name):
        if len(args.pos) != n or args.tail is not None or args.kw or args.kwrest is not None:
            raise Unsupported(f'{name}: unexpected argument shape')
        return args.pos

    def bi_len(self, st, args, node):
        (v,) = self.one_pos(args, 1, 'len')
        if isinstance(v, TupleV):
            return self.ok(st, self.py_int(len(v.items)))
        if isinstance(v, KwDictV):
            v = self.materialise_kwdict(st, v)
        if isinstance(v, SV):
            if v.kind == 'str':
                return self.ok(st, SV(intv(z3.Length(self.as_str(st, v))), 'int'))
            c = v.cls
            if c is not None and not c.external and c.lookup('__len__') is not None:
                return self.call_function(st, FuncV(c.lookup('__len__')), Args([v]))
            if c is not None and c.qualname in ('dict', 'set', 'frozenset'):
                st.assume(self.dict_len(st, r_of(v.term)) >= 0)
                return self.ok(st, SV(intv(self.dict_len(st, r_of(v.term))), 'int'))
            if c is not None and c.qualname in ('list', 'tuple'):
                return self.ok(st, SV(intv(z3.Length(self.list_seq(st, r_of(v.term)))), 'int'))
            if c is None:
                t = v.term
                outs = []
                s1, rest = self.fork(st, is_str(t))
                if s1 is not None:
                    outs.append(Out('ok', s1, SV(intv(z3.Length(s_of(t))), 'int')))
                if rest is not None:
                    clt = z3.Select(rest.CL, r_of(t))
                    s2, rest2 = self.fork(rest, AND(is_ref(t), OR(clt == I(self.cls('list').id), clt == I(self.cls('tuple').id))))
                    if s2 is not None:
                        outs.append(Out('ok', s2, SV(intv(z3.Length(self.list_seq(s2, r_of(t)))), 'int')))
                    if rest2 is not None:
                        s3, rest3 = self.fork(rest2, AND(is_ref(t), OR(*[clt == I(self.cls(q).id) for q in ('dict', 'set', 'frozenset')])))
                        if s3 is not None:
                            s3.assume(self.dict_len(s3, r_of(t)) >= 0)
                            outs.append(Out('ok', s3, SV(intv(self.dict_len(s3, r_of(t))), 'int')))
                        if rest3 is not None:
                            raise Unsupported('len() of value of unknown class', node)
                return outs
        raise Unsupported(f'len of {v!r}', node)

    def class_list(self, v, node=None):
        if isinstance(v, ClassV):
            return [v.ci]
        if isinstance(v, TupleV):
            res = []
            for x in v.items:
                res.extend(self.class_list(x, node))
            return res
        return None

    def bi_isinstance(self, st, args, node):
        v, c = self.one_pos(args, 2, 'isinstance')
        cl = self.class_list(c, node)
        if cl is None:
            # symbolic class argument (e.g. port valid_type): uninterpreted predicate over (value, class)
            f = self.uf('py_isinstance', [Val, Val], smt.Bool)
            self.note('isinstance(value, <symbolic class>) is an uninterpreted predicate of (value, class)')
            return self.ok(st, SV(boolv(f(self.to_term(st, v), self.to_term(st, c))), 'bool'))
        if isinstance(v, KwDictV):
            return self.ok(st, self.py_bool(any(x.qualname in ('dict', 'object', 'collections.abc.Mapping', 'collections.abc.MutableMapping') for x in cl)))
        t = OR(*[self.isinstance_ext(st, v, ci) for ci in cl])
        return self.ok(st, SV(boolv(smt.simp(t)), 'bool'))

    def isinstance_ext(self, st, v, ci):
        q = ci.qualname
        # abstract base classes registered for builtins
        if q in ('collections.abc.Mapping', 'collections.abc.MutableMapping'):
            return OR(self.isinstance_term(st, v, ci), self.isinstance_term(st, v, self.cls('dict')))
        if q == 'collections.abc.Sequence':
            if isinstance(v, SV):
                return OR(self.isinstance_term(st, v, ci), self.isinstance_term(st, v, self.cls('list')),
                          self.isinstance_term(st, v, self.cls('tuple')), is_str(v.term))
            return self.isinstance_term(st, v, ci)
        return self.isinstance_term(st, v, ci)

    def uf(self, name, dom, rng):
        key = '_uf_' + name
        if not hasattr(self, key):
            setattr(self, key, z3.Function(name, *dom, rng))
        return getattr(self, key)

    def bi_issubclass(self, st, args, node):
        a, b = self.one_pos(args, 2, 'issubclass')
        cl = self.class_list(b, node)
        if isinstance(a, ClassV) and cl is not None:
            return self.ok(st, self.py_bool(any(c in a.ci.mro for c in cl)))
        raise Unsupported('issubclass on symbolic class', node)

    def bi_callable(self, st, args, node):
        (v,) = self.one_pos(args, 1, 'callable')
        if isinstance(v, (FuncV, LambdaV, BoundV, ClassV, BuiltinV, PartialV, WrappedV)):
            return self.ok(st, self.py_bool(True))
        if isinstance(v, TupleV):
            return self.ok(st, self.py_bool(False))
        if isinstance(v, SV):
            if v.kind in ('none', 'bool', 'int', 'str'):
                return self.ok(st, self.py_bool(False))
            f = self.uf('py_callable', [Val], smt.Bool)
            t = v.term
            self.note('callable(x) on an unknown object is an uninterpreted predicate (False on None/bool/int/str/containers)')
            cont = FALSE
            if v.kind is None or v.kind == 'ref':
                clt = z3.Select(st.CL, r_of(t))
                cont = AND(is_ref(t), OR(*[clt == I(self.cls(q).id) for q in ('dict', 'list', 'tuple', 'set', 'frozenset')]))
                isfun = AND(is_ref(t), OR(clt == I(self.cls('function').id), clt == I(self.cls('method').id), clt == I(self.cls('type').id)))
            return self.ok(st, SV(boolv(AND(is_ref(t), NOT(cont), NOT(t == ref(I(self.EMPTY_TUPLE))), OR(isfun, f(t)))), 'bool'))
        raise Unsupported(f'callable({v!r})', node)

    def const_str(self, v):
        if isinstance(v, SV) and v.kind == 'str':
            t = smt.simp(s_of(v.term))
            if z3.is_string_value(t):
                return t.as_string()
        return None

    def bi_getattr(self, st, args, node):
        if len(args.pos) not in (2, 3):
            raise Unsupported('getattr arity', node)
        obj, name = args.pos[0], args.pos[1]
        cs = self.const_str(name)
        if cs is not None:
            outs = self.getattr_v(st, obj, cs, node)
        elif isinstance(obj, SV) and isinstance(name, SV):
            outs = self.getattr_dynamic(st, obj, name, node)
        elif isinstance(obj, SV) and not isinstance(name, SV):
            raise Unsupported(f'getattr name is not a string value: {name!r}', node)
        elif isinstance(obj, ClassV) and isinstance(name, SV) and not obj.ci.external:
            # getattr(<known class>, <symbolic name>): case split over the names the class table defines
            nm = s_of(name.term)
            names = set()
            for c in obj.ci.mro:
                if not c.external:
                    names |= set(c.methods) | set(c.class_attrs)
            outs = []
            cur = st
            for n in sorted(names):
                if cur is None:
                    break
                yes, cur = self.fork(cur, nm == S(n))
                if yes is not None:
                    outs.extend(self.getattr_v(yes, obj, n, node))
            if cur is not None:
                self.note(f'getattr({obj.ci.name}, <name>) for names not defined by the class table raises AttributeError '
                          '(attributes inherited from external bases are not properties)')
                outs.append(self.raise_new(cur, 'AttributeError'))
        else:
            raise Unsupported('getattr with symbolic name on non-symbolic object', node)
        if len(args.pos) == 3:
            res = []
            for o in outs:
                if o.kind == 'raise' and self.exc_is(o.st, o.val, self.cls('AttributeError')) is True:
                    res.append(Out('ok', o.st, args.pos[2]))
                else:
                    res.append(o)
            return res
        return outs

    def getattr_dynamic(self, st, obj: SV, name: SV, node=None):
        """getattr(obj, <symbolic name>): a heap read at a symbolic attribute name; names that resolve to methods
        or properties of the object's class are case-split."""
        if obj.cls is None:
            # an object of a class outside the class table (user object): the attribute is whatever its heap cell holds
            val = self.hload(st, r_of(obj.term), s_of(name.term))
            st.assume(self.older(st, val))
            return self.ok(st, SV(val))
        nm = s_of(name.term)
        outs = []
        cur = st
        # names defined by the static class (and its bases): class-level members for every possible receiver
        base = {}
        for k in obj.cls.mro:
            if not k.external:
                for n_, f_ in k.methods.items():
                    base.setdefault(n_, f_)
        sub = set()
        if not obj.exact:
            for c in self.candidate_classes(st, obj):
                for k in c.mro:
                    if not k.external:
                        sub.update(n_ for n_ in k.methods if n_ not in base)
        plain = sorted(n_ for n_, f_ in base.items() if f_.kind == 'method')
        others = sorted(n_ for n_, f_ in base.items() if f_.kind != 'method')
        for m in others:
            if cur is None:
                break
            yes, cur = self.fork(cur, nm == S(m))
            if yes is not None:
                outs.extend(self.getattr_v(yes, obj, m, node))
        if cur is not None and plain:
            # an ordinary method of the class: ONE branch with a method object bound to the receiver, named as asked
            yes, cur = self.fork(cur, OR(*[nm == S(m) for m in plain]))
            if yes is not None:
                o = self.alloc(yes, self.cls('method'))
                r = r_of(o.term)
                self.hstore(yes, r, '__self__', obj.term)
                self.hstore(yes, r, '__name__', strv(nm))
                outs.append(Out('ok', yes, SV(o.term, 'ref', self.cls('method'), True)))
        if cur is not None and sub:
            # a name that only some subclasses define at class level: for those receivers the value is not the heap cell
            cond = OR(*[nm == S(m) for m in sorted(sub)])
            if self.feasible(cur, cond):
                s2 = cur.copy()
                s2.assume(cond)
                v = SV(smt.fresh('submember', Val))
                s2.assume(self.older(s2, v.term))
                self.assumptions_used.add('getattr(obj, <name>) for a name that only some subclasses define at class level: an arbitrary '
                                          'value (or the instance attribute), evaluated without side effects')
                outs.append(Out('ok', s2, v))
        if cur is not None:
            val = self.hload(cur, r_of(obj.term), nm)
            cur.assume(self.older(cur, val))
            outs.append(Out('ok', cur, SV(val)))
        return outs

    def bi_setattr(self, st, args, node):
        obj, name, val = self.one_pos(args, 3, 'setattr')
        cs = self.const_str(name)
        if cs is not None:
            return [Out('ok', o.st, self.py_none()) if o.kind == 'ok' else o for o in self.setattr_v(st, obj, cs, val, node)]
        if isinstance(obj, SV) and isinstance(name, SV) and obj.cls is not None:
            # symbolic name: property setters of the class are case-split, otherwise a heap store
            nm = s_of(name.term)
            props = set()
            for c in self.candidate_classes(st, obj):
                for k in c.mro:
                    if not k.external:
                        props.update(n for n, f in k.methods.items() if f.kind == 'property')
            outs = []
            cur = st
            for p in sorted(props):
                if cur is None:
                    break
                yes, cur = self.fork(cur, nm == S(p))
                if yes is not None:
                    outs.extend(Out('ok', o.st, self.py_none()) if o.kind == 'ok' else o for o in self.setattr_v(yes, obj, p, val, node))
            if cur is not None:
                cur = cur.copy()
                self.hstore(cur, r_of(obj.term), nm, self.to_term(cur, val))
                outs.append(Out('ok', cur, self.py_none()))
            return outs
        raise Unsupported('setattr shape', node)

    def bi_hasattr(self, st, args, node):
        obj, name = self.one_pos(args, 2, 'hasattr')
        cs = self.const_str(name)
        if cs is None:
            raise Unsupported('hasattr with symbolic name', node)
        if cs == '__bool__':
            # every builtin scalar/None/container/object answers bool(); `hasattr(x,'__bool__')` is True for
            # bool/int, False for None/str/containers/plain objects unless the class defines it
            if isinstance(obj, SV):
                t = obj.term
                f = self.uf('py_has_bool', [Val], smt.Bool)
                return self.ok(st, SV(boolv(z3.If(OR(is_bool(t), is_int(t)), TRUE, z3.If(OR(is_none(t), is_str(t)), FALSE, f(t)))), 'bool'))
        outs = self.getattr_v(st, obj, cs, node)
        res = []
        for o in outs:
            if o.kind == 'ok':
                res.append(Out('ok', o.st, self.py_bool(True)))
            elif self.exc_is(o.st, o.val, self.cls('AttributeError')) is True:
                res.append(Out('ok', o.st, self.py_bool(False)))
            else:
                res.append(o)
        return res

    def bi_str(self, st, args, node):
        (v,) = self.one_pos(args, 1, 'str')
        if isinstance(v, SV):
            if v.kind == 'str':
                return self.ok(st, v)
            return self.ok(st, SV(strv(self.str_of(st, v)), 'str'))
        return self.ok(st, SV(strv(smt.fresh('str', smt.Str)), 'str'))

    def bi_bool(self, st, args, node):
        (v,) = self.one_pos(args, 1, 'bool')
        res = []
        for (s2, truth) in self.ev_truth(st, v):
            res.append(truth if isinstance(truth, Out) else Out('ok', s2, SV(boolv(truth), 'bool')))
        return res

    def bi_type(self, st, args, node):
        (v,) = self.one_pos(args, 1, 'type')
        return self.ok(st, self.class_of_value(st, v))

    def bi_id(self, st, args, node):
        (v,) = self.one_pos(args, 1, 'id')
        return self.ok(st, SV(intv(r_of(self.to_term(st, v))), 'int'))

    def bi_tuple(self, st, args, node):
        if not args.pos:
            return self.ok(st, TupleV([]))
        (v,) = self.one_pos(args, 1, 'tuple')
        if isinstance(v, TupleV):
            return self.ok(st, v)
        st = st.copy()
        o = self.alloc(st, self.cls('tuple'))
        st.LS = z3.Store(st.LS, r_of(o.term), self.seq_view(st, v))
        return self.ok(st, o)

    def bi_list(self, st, args, node):
        st = st.copy()
        if not args.pos:
            return self.ok(st, self.new_list(st))
        (v,) = self.one_pos(args, 1, 'list')
        if isinstance(v, IterV) and v.kind == 'seq':
            return self.ok(st, self.new_list(st, v.seq))
        if isinstance(v, IterV) and v.kind == 'concrete':
            return self.ok(st, self.new_list(st, self.seq_of_terms([self.to_term(st, x) for x in v.items])))
        if isinstance(v, TupleV) or (isinstance(v, SV) and v.cls is not None and v.cls.qualname in ('list', 'tuple')):
            return self.ok(st, self.new_list(st, self.seq_view(st, v)))
        if isinstance(v, SV) and v.cls is not None and v.cls.qualname in ('set', 'frozenset', 'dict'):
            return self.ok(st, self.list_of_set(st, v))
        if isinstance(v, IterV) and v.kind == 'dictkeys':
            return self.ok(st, self.list_of_set(st, v.d))
        raise Unsupported(f'list({v!r})', node)

    def list_of_set(self, st, d: SV):
        """list(set): a fresh list whose elements are exactly the members (each once, unspecified order)"""
        seq = smt.fresh('setlist', smt.SeqV)
        r = r_of(d.term)
        x = smt.fresh('x', Val)
        st.assume(z3.Length(seq) == self.dict_len(st, r))
        st.assume(z3.ForAll([x], z3.Contains(seq, z3.Unit(x)) == z3.Select(z3.Select(st.DH, r), x)))
        self.note('list(set)/iteration order of sets and dicts is unspecified: only membership and length are known')
        return self.new_list(st, seq)

    def bi_dict(self, st, args, node):
        st = st.copy()
        if not args.pos and args.tail is None:
            d = self.new_dict(st)
            if args.kwrest is not None:
                rr = r_of(args.kwrest.term)
                r = r_of(d.term)
                st.DH = z3.Store(st.DH, r, z3.Select(st.DH, rr))
                st.DV = z3.Store(st.DV, r, z3.Select(st.DV, rr))
                st.DL = z3.Store(st.DL, r, z3.Select(st.DL, rr))
            for k, x in args.kw.items():
                self.dict_set(st, r_of(d.term), strv(S(k)), self.to_term(st, x))
            return self.ok(st, d)
        if len(args.pos) == 1 and args.tail is None and args.kwrest is None:
            v = args.pos[0]
            if isinstance(v, KwDictV):
                v = self.materialise_kwdict(st, v)
            if isinstance(v, SV):
                return self.bind(self.mapping_view(st, v, node), lambda s2, src: self._dict_copy(s2, src, args.kw))
        raise Unsupported('dict(...) shape', node)

    def _dict_copy(self, st, src: SV, extra_kw=None):
        st = st.copy()
        d = self.alloc(st, self.cls('dict'))
        r, rr = r_of(d.term), r_of(src.term)
        st.DH = z3.Store(st.DH, r, z3.Select(st.DH, rr))
        st.DV = z3.Store(st.DV, r, z3.Select(st.DV, rr))
        st.DL = z3.Store(st.DL, r, z3.Select(st.DL, rr))
        for k, x in (extra_kw or {}).items():
            self.dict_set(st, r, strv(S(k)), self.to_term(st, x))
        return self.ok(st, d)

    def mapping_view(self, st, v: SV, node=None) -> List[Out]:
        """The underlying builtin dict of a mapping value: dict itself, or a repository Mapping class whose
        __iter__/__getitem__ delegate to a private dict (Frozendict._dict, PortNamespace._ports)."""
        c = v.cls
        if c is not None and c.qualname == 'dict':
            return self.ok(st, v)
        if c is not None and c.external and c.qualname in ('collections.abc.Mapping', 'collections.abc.MutableMapping', 'typing.Mapping'):
            # narrowed by isinstance(x, Mapping) only: decide the concrete class from the path condition
            c = None
        if c is not None and not c.external:
            deleg = self.mapping_delegate(c)
            if deleg is not None:
                val = self.hload(st, r_of(v.term), deleg)
                st.assume(self.older(st, val))
                st.assume(AND(is_ref(val), z3.Select(st.CL, r_of(val)) == I(self.cls('dict').id)))
                self.assumptions_used.add(f'{c.name}.{deleg} holds a builtin dict (class invariant, set in __init__)')
                return self.ok(st, SV(val, 'ref', self.cls('dict'), True))
        if c is None:
            t = v.term
            clt = z3.Select(st.CL, r_of(t))
            s1, rest = self.fork(st, AND(is_ref(t), clt == I(self.cls('dict').id)))
            outs = []
            if s1 is not None:
                outs.append(Out('ok', s1, SV(t, 'ref', self.cls('dict'), True)))
            if rest is not None:
                # try repository mapping classes
                for cand in self.index.classes.values():
                    if cand.external or self.mapping_delegate(cand) is None:
                        continue
                    if rest is None:
                        break
                    s2, rest = self.fork(rest, AND(is_ref(t), self.is_subclass_term(clt, cand)))
                    if s2 is not None:
                        outs.extend(self.mapping_view(s2, SV(t, 'ref', cand), node))
                if rest is not None:
                    raise Unsupported('mapping view of value of unknown class', node)
            return outs
        raise Unsupported(f'mapping view of {c.qualname if c else v!r}', node)

    def sequence_delegate(self, c):
        """name of the private list a repository Sequence class delegates __getitem__/__len__ to (derived from the source)"""
        g, l = c.lookup('__getitem__'), c.lookup('__len__')
        if g is None or l is None or g.cls.external or l.cls.external:
            return None
        import re
        m1 = re.match(r'return self\.(\w+)\[(\w+)\]$', ast.unparse(g.node.body[-1]))
        m2 = re.match(r'return len\(self\.(\w+)\)$', ast.unparse(l.node.body[-1]))
        if m1 and m2 and m1.group(1) == m2.group(1) and len(g.node.body) == 1:
            return m1.group(1)
        return None

    def mapping_delegate(self, c):
        """name of the private dict attribute a repository Mapping class delegates to, derived from its __iter__"""
        f = c.lookup('__iter__')
        if f is None or f.cls.external:
            return None
        src = ast.unparse(f.node.body[-1])
        import re
        m = re.match(r'return (?:iter\(self\.(\w+)\)|self\.(\w+)\.__iter__\(\))$', src)
        if not m:
            return None
        name = m.group(1) or m.group(2)
        g = c.lookup('__getitem__')
        if g is None or f'return self.{name}[' not in ast.unparse(g.node.body[-1]):
            return None
        return name

    def bi_set(self, st, args, node):
        st = st.copy()
        if not args.pos:
            return self.ok(st, self.new_dict(st, self.cls('set')))
        (v,) = self.one_pos(args, 1, 'set')
        if isinstance(v, SV) and v.cls is None:
            v = self.probe_class(st, v)
        if isinstance(v, SV) and v.cls is not None and v.cls.qualname in ('set', 'frozenset'):
            d = self.alloc(st, self.cls('set'))
            r, rr = r_of(d.term), r_of(v.term)
            st.DH = z3.Store(st.DH, r, z3.Select(st.DH, rr))
            st.DL = z3.Store(st.DL, r, z3.Select(st.DL, rr))
            return self.ok(st, d)
        raise Unsupported('set(x) shape', node)

    def bi_dir(self, st, args, node):
        """dir(obj) summarised from the class table (re-derived every run): every name defined by the classes of the
        object's MRO plus the instance attributes they assign, sorted as dir() sorts."""
        (v,) = self.one_pos(args, 1, 'dir')
        if not isinstance(v, SV) or v.cls is None or v.cls.external:
            raise Unsupported('dir() of object of unknown class', node)
        names = set()
        for c in v.cls.mro:
            names |= set(c.methods) | set(c.class_attrs) | set(c.inst_attrs)
        self.note(f'dir({v.cls.name} instance) summarised from the class table ({len(names)} names); names contributed by '
                  'external base classes are not properties of the class and are omitted')
        if not v.exact:
            self.assumptions_used.add(f'dir(): subclasses of {v.cls.name} define no further mutable properties')
        return self.ok(st, IterV('concrete', items=[self.py_str(n) for n in sorted(names)]))

    def bi_iter(self, st, args, node):
        (v,) = self.one_pos(args, 1, 'iter')
        if isinstance(v, SV) and v.cls is not None and v.cls.qualname in ('dict', 'set', 'frozenset'):
            return self.ok(st, IterV('dictkeys', d=v))
        if isinstance(v, SV) and v.cls is not None and v.cls.qualname in ('list', 'tuple'):
            return self.ok(st, IterV('seq', seq=self.list_seq(st, r_of(v.term))))
        raise Unsupported('iter() shape', node)

    def quantify_generator(self, st, gen: ast.GeneratorExp, universal: bool, node):
        if len(gen.generators) != 1 or gen.generators[0].is_async:
            raise Unsupported('generator shape', node)
        g = gen.generators[0]
        outs = self.ev(st, g.iter)
        if len(outs) != 1 or outs[0].kind != 'ok':
            raise Unsupported('generator iterable forks', node)
        st2, it = outs[0].st, outs[0].val
        if isinstance(it, TupleV):
            items = it.items
            conj = []
            cur = st2
            for item in items:
                a = self.assign(cur.copy(), g.target, item)
                assert len(a) == 1
                t = self._gen_body_term(a[0].st, gen, g, node)
                conj.append(t)
            res = AND(*conj) if universal else OR(*conj)
            return self.ok(st2, SV(boolv(res), 'bool'))
        seq = self.seq_view(st2, it) if not isinstance(it, IterV) else it.seq
        if seq is None:
            raise Unsupported('generator over non-sequence', node)
        i = smt.fresh('gi', smt.Int)
        rng = AND(i >= 0, i < z3.Length(seq))
        elem = seq[i]

        def body_for(kind):
            s3 = st2.copy()
            s3.assume(rng)
            ev = SV(elem, kind)
            if kind == 'str':
                s3.assume(is_str(elem))
            a = self.assign(s3, g.target, ev)
            assert len(a) == 1
            return self._gen_body_term(a[0].st, gen, g, node)

        outs = []
        try:
            body = body_for(None)
            typed = TRUE
        except Unsupported:
            # the element expression is only defined for strings (e.g. rule.startswith(..)): quantify over the string
            # elements and add the path on which some element is not a string (the real code raises there)
            body = body_for('str')
            typed = is_str(elem)
            bad = z3.Exists([i], AND(rng, NOT(is_str(elem))))
            sbad = st2.copy()
            sbad.assume(bad)
            if self.feasible(sbad):
                outs.append(self.raise_new(sbad, 'AttributeError'))
            st2 = st2.copy()
            st2.assume(z3.ForAll([i], z3.Implies(rng, is_str(elem))))
        if universal:
            res = z3.ForAll([i], z3.Implies(rng, body))
        else:
            res = z3.Exists([i], AND(rng, body))
        return outs + self.ok(st2, SV(boolv(res), 'bool'))

    def _gen_body_term(self, st, gen, g, node):
        conds = []
        cur = st
        for c in g.ifs:
            o = self.ev(cur, c)
            if len(o) != 1 or o[0].kind != 'ok':
                raise Unsupported('generator condition forks or may raise', node)
            conds.append(self.truthy(o[0].st, o[0].val))
            cur = o[0].st
        def pure_truth(st_, n):
            if isinstance(n, ast.BoolOp):
                ts = [pure_truth(st_, v) for v in n.values]
                return AND(*ts) if isinstance(n.op, ast.And) else OR(*ts)
            if isinstance(n, ast.UnaryOp) and isinstance(n.op, ast.Not):
                return NOT(pure_truth(st_, n.operand))
            o = self.ev(st_, n)
            oks = [x for x in o if x.kind == 'ok']
            if len(o) != 1 or len(oks) != 1:
                # the element expression may raise for some element kinds (e.g. .startswith on a non-str)
                raise Unsupported('generator element forks or may raise; state element types in the contract', node)
            return self.truthy(oks[0].st, oks[0].val)

        body = pure_truth(cur, gen.elt)
        return AND(*conds, body) if conds else body
        oks = [None]
        # side conditions assumed during the element evaluation (type facts) are kept as antecedents
        extra = oks[0].st.pc[len(st.pc):]
        if extra:
            body = z3.Implies(AND(*extra), body) if False else AND(*extra, body) if False else body
        if conds:
            return AND(*conds, body)
        return body

    def probe_kind(self, st, v: SV, timeout_ms=400):
        """give an untyped symbolic value a kind hint if the path condition entails one"""
        if v.kind is not None:
            return v
        for kind, pred in (('str', is_str), ('ref', is_ref)):
            if self.entails(st, pred(v.term), timeout_ms):
                return SV(v.term, kind)
        return v

    def bi_any(self, st, args, node):
        raise Unsupported('any() on non-generator', node)

    def bi_all(self, st, args, node):
        raise Unsupported('all() on non-generator', node)

    # Mapping mix-in methods of repository mapping classes that delegate to a private dict
    def _mapping(self, st, selfv, k, node):
        return self.bind(self.mapping_view(st, selfv, node), k)

    def bm_mapping_items(self, st, selfv, args, node):
        return self._mapping(st, selfv, lambda s2, d: self.ok(s2, IterV('dictitems', d=d)), node)

    def bm_mapping_keys(self, st, selfv, args, node):
        return self._mapping(st, selfv, lambda s2, d: self.ok(s2, IterV('dictkeys', d=d)), node)

    def bm_mapping_values(self, st, selfv, args, node):
        return self._mapping(st, selfv, lambda s2, d: self.ok(s2, IterV('dictvalues', d=d)), node)

    def bm_mapping_get(self, st, selfv, args, node):
        return self._mapping(st, selfv, lambda s2, d: self.bm_dict_get(s2, d, args, node), node)

    def bm_mapping___contains__(self, st, selfv, args, node):
        return self._mapping(st, selfv, lambda s2, d: self.contains(s2, d, args.pos[0], node), node)

    # ------------------------------------------------------------------ well-known library functions
    def bi_asyncio_iscoroutinefunction(self, st, args, node):
        (v,) = self.one_pos(args, 1, 'iscoroutinefunction')
        if isinstance(v, FuncV):
            return self.ok(st, self.py_bool(v.fi.is_async))
        if isinstance(v, BoundV) and isinstance(v.fn, FuncV):
            return self.ok(st, self.py_bool(v.fn.fi.is_async))
        if isinstance(v, (LambdaV, ClassV, PartialV)):
            return self.ok(st, self.py_bool(False))
        if isinstance(v, BoundV):
            return self.ok(st, self.py_bool(False))
        f = self.uf('py_iscoroutinefunction', [Val], smt.Bool)
        return self.ok(st, SV(boolv(f(self.to_term(st, v))), 'bool'))

    def bi_inspect_isclass(self, st, args, node):
        (v,) = self.one_pos(args, 1, 'isclass')
        if isinstance(v, ClassV):
            return self.ok(st, self.py_bool(True))
        if isinstance(v, SV):
            t = v.term
            rid = r_of(t)
            cond = AND(is_ref(t), OR(z3.Select(st.CL, rid) == I(self.cls('type').id), AND(rid >= 1, rid < I(min(self.index.func_by_id) if self.index.func_by_id else 1))))
            return self.ok(st, SV(boolv(cond), 'bool'))
        return self.ok(st, self.py_bool(False))

    def bi_object___new__(self, st, args, node):
        """cls.__new__(cls) for a class of the class table that defines no __new__: a fresh instance, no __init__"""
        (cv,) = self.one_pos(args, 1, '__new__')
        if not isinstance(cv, ClassV) or cv.ci.external:
            raise Unsupported('__new__ of a class that is not a constant of the class table', node)
        st = st.copy()
        obj = self.alloc(st, cv.ci)
        self.init_class_defaults(st, obj, cv.ci)
        return self.ok(st, SV(obj.term, 'ref', cv.ci, True))

    def bi_inspect_getfullargspec(self, st, args, node):
        """inspect.getfullargspec(f): for a callable the class table does not know, a 7-tuple whose first entry is a fresh list of
        unknown length (the argument names); raises nothing (A: validators are introspectable callables)"""
        (f,) = self.one_pos(args, 1, 'getfullargspec')
        st = st.copy()
        if isinstance(f, FuncV):
            names = [self.py_str(a_.arg) for a_ in f.fi.node.args.posonlyargs + f.fi.node.args.args]
            lst = self.new_list(st, self.seq_of_terms([self.to_term(st, x) for x in names]))
        else:
            lst = self.new_list(st, smt.fresh('argnames', smt.SeqV))
        self.assumptions_used.add('inspect.getfullargspec(<unknown callable>): a tuple whose first entry is a list of unknown length; never raises')
        rest = [SV(smt.fresh('argspec', Val)) for _ in range(6)]
        o = self.alloc(st, self.cls('tuple'))
        st.LS = z3.Store(st.LS, r_of(o.term), self.seq_of_terms([lst.term] + [x.term for x in rest]))
        return self.ok(st, SV(o.term, 'ref', self.cls('tuple'), True))

    def bi_inspect_ismethod(self, st, args, node):
        (v,) = self.one_pos(args, 1, 'ismethod')
        if isinstance(v, BoundV):
            return self.ok(st, self.py_bool(True))
        if isinstance(v, SV):
            t = v.term
            return self.ok(st, SV(boolv(AND(is_ref(t), z3.Select(st.CL, r_of(t)) == I(self.cls('method').id))), 'bool'))
        return self.ok(st, self.py_bool(False))

    def bi_inspect_isfunction(self, st, args, node):
        (v,) = self.one_pos(args, 1, 'isfunction')
        if isinstance(v, (FuncV, LambdaV)):
            return self.ok(st, self.py_bool(True))
        if isinstance(v, SV):
            t = v.term
            return self.ok(st, SV(boolv(AND(is_ref(t), z3.Select(st.CL, r_of(t)) == I(self.cls('function').id))), 'bool'))
        return self.ok(st, self.py_bool(False))

    def bi_kiwipy_capture_exceptions(self, st, args, node):
        """kiwipy.capture_exceptions(future, ignore=()): a context manager that stores an Exception raised by the body
        in `future` (set_exception) and swallows it; BaseException-only classes propagate.  (kiwipy source, 8 lines.)"""
        if len(args.pos) != 1 or args.kw:
            raise Unsupported('capture_exceptions(future, ignore=...)', node)
        fut = args.pos[0]
        eng = self
        self.assumptions_used.add('kiwipy.capture_exceptions modelled from its source: `except Exception as e: future.set_exception(e)`')

        def enter(eng_, st_):
            return [Out('ok', st_, eng.py_none())]

        def exit_(eng_, body_out):
            if body_out.kind != 'raise':
                return [body_out]
            st_ = body_out.st
            exc = body_out.val
            outs = []
            t, f = eng.fork(st_, eng.isinstance_term(st_, exc, eng.cls('Exception')))
            if t is not None:
                for o in eng.getattr_v(t, fut, 'set_exception', node):
                    if o.kind != 'ok':
                        outs.append(o)
                        continue
                    for o2 in eng.call(o.st, o.val, Args([exc]), node):
                        outs.append(Out('ok', o2.st) if o2.kind == 'ok' else o2)
            if f is not None:
                outs.append(Out('raise', f, exc))
            return outs

        return self.ok(st, CtxV(enter, exit_))

    def bi_functools_partial(self, st, args, node):
        if not args.pos:
            raise Unsupported('partial()', node)
        return self.ok(st, PartialV(args.pos[0], Args(args.pos[1:], args.tail, args.kw, args.kwrest)))

    def bi_sys_exc_info(self, st, args, node):
        exc = st.frame.exc if st.frame is not None else None
        if exc is None:
            return self.ok(st, TupleV([self.py_none(), self.py_none(), self.py_none()]))
        tb = self.hload(st, r_of(self.to_term(st, exc)), '__traceback__')
        return self.ok(st, TupleV([self.class_of_value(st, exc), exc, SV(tb)]))

    # ------------------------------------------------------------------ methods of builtin containers
    def call_builtin_method(self, st: St, name: str, selfv: V, args: Args, node=None) -> List[Out]:
        lib = self.lib_contract(name)
        if lib is not None:
            a2 = Args([selfv] + args.pos, args.tail, args.kw, args.kwrest)
            return self.apply_contract(st, lib, None, BuiltinV(name), a2, node)
        m = getattr(self, 'bm_' + name.replace('.', '_'), None)
        if m is not None:
            return m(st, selfv, args, node)
        if name.startswith('super.'):
            return self.super_external(st, name[6:], selfv, args, node)
        raise Unsupported(f'builtin method {name}', node)

    def super_external(self, st, name, selfv, args, node):
        """super().m(...) landing in an external base class"""
        if name == '__init__':
            # which external base?
            ext = None
            if isinstance(selfv, SV) and selfv.cls is not None:
                for c in selfv.cls.mro:
                    if c.external and c.qualname != 'object':
                        ext = c
                        break
            if ext is None:
                return self.ok(st, self.py_none())
            outs = self.external_init(st, selfv, ext, args, node)
            return outs
        if name in ('__call__',):
            # type.__call__ from a metaclass: plain construction
            if isinstance(selfv, ClassV):
                return self.construct_plain(st, selfv.ci, args, node)
        if name in ('enter', 'exit', 'init', 'on_terminated'):
            return self.ok(st, self.py_none())
        raise Unsupported(f'super().{name} into external base', node)

    def external_init(self, st, obj: SV, ext, args: Args, node=None):
        lib = self.lib_contract(ext.qualname + '.__init__')
        if lib is not None:
            return self.apply_contract(st, lib, None, BuiltinV(ext.qualname + '.__init__'), Args([obj] + args.pos, args.tail, args.kw, args.kwrest), node)
        if any(c.qualname == 'BaseException' for c in ext.mro):
            st = st.copy()
            if args.tail is None and not args.kw:
                tup = TupleV(args.pos)
                self.hstore(st, r_of(obj.term), 'args', self.to_term(st, tup))
            return self.ok(st, self.py_none())
        if ext.qualname == 'dict' and not args.pos and args.tail is None and not args.kw and args.kwrest is None:
            return self.ok(st, self.py_none())
        if ext.qualname in ('collections.abc.Mapping', 'collections.abc.MutableMapping', 'collections.abc.Sequence', 'object', 'types.SimpleNamespace'):
            if ext.qualname == 'types.SimpleNamespace' and (args.kw or args.kwrest is not None):
                st = st.copy()
                for k, x in args.kw.items():
                    self.hstore(st, r_of(obj.term), k, self.to_term(st, x))
                if args.kwrest is not None:
                    raise Unsupported('SimpleNamespace(**symbolic)', node)
            return self.ok(st, self.py_none())
        raise Unsupported(f'constructor of external base {ext.qualname}', node)

    def construct_external(self, st, ci, args: Args, node=None):
        lib = self.lib_contract(ci.qualname + '.__new__')
        if lib is not None:
            return self.apply_contract(st, lib, None, BuiltinV(ci.qualname), args, node)
        q = ci.qualname
        if q == 'functools.partial':
            return self.bi_functools_partial(st, args, node)
        if q in ('dict', 'list', 'tuple', 'set', 'str', 'bool', 'type', 'frozenset', 'int'):
            return self.call_builtin(st, q, args, node)
        if any(c.qualname == 'BaseException' for c in ci.mro):
            st = st.copy()
            o = self.alloc(st, ci)
            if args.tail is None:
                self.hstore(st, r_of(o.term), 'args', self.to_term(st, TupleV(args.pos)))
            return self.ok(st, o)
        st = st.copy()
        o = self.alloc(st, ci)
        outs = self.external_init(st, o, ci, args, node)
        return [Out('ok', x.st, o) if x.kind == 'ok' else x for x in outs]

    # str methods
    def bm_str_startswith(self, st, selfv, args, node):
        (p,) = self.one_pos(args, 1, 'startswith')
        if not (isinstance(p, SV) and p.kind == 'str'):
            if isinstance(p, SV):
                t, f = self.fork(st, is_str(p.term))
                outs = []
                if t is not None:
                    outs.append(Out('ok', t, SV(boolv(z3.PrefixOf(s_of(p.term), self.as_str(t, selfv))), 'bool')))
                if f is not None:
                    outs.append(self.raise_new(f, 'TypeError'))
                return outs
            raise Unsupported('startswith arg', node)
        return self.ok(st, SV(boolv(z3.PrefixOf(self.as_str(st, p), self.as_str(st, selfv))), 'bool'))

    def bm_str_endswith(self, st, selfv, args, node):
        (p,) = self.one_pos(args, 1, 'endswith')
        return self.ok(st, SV(boolv(z3.SuffixOf(self.as_str(st, p), self.as_str(st, selfv))), 'bool'))

    def bm_str_strip(self, st, selfv, args, node):
        f = self.uf('py_strip', [smt.Str], smt.Str)
        return self.ok(st, SV(strv(f(self.as_str(st, selfv))), 'str'))

    def bm_str_format(self, st, selfv, args, node):
        return self.ok(st, SV(strv(smt.fresh('fmt', smt.Str)), 'str'))

    def split_fn(self):
        return self.uf('py_split', [smt.Str, smt.Str], smt.SeqV)

    def join_fn(self):
        return self.uf('py_join', [smt.Str, smt.SeqV], smt.Str)

    def bm_str_split(self, st, selfv, args, node):
        (sep,) = self.one_pos(args, 1, 'split')
        s, p = self.as_str(st, selfv), self.as_str(st, sep)
        parts = self.split_fn()(s, p)
        st = st.copy()
        self.split_axioms(st, s, p, parts)
        return self.ok(st, self.new_list(st, parts))

    def split_axioms(self, st, s, p, parts):
        """instance axioms for s.split(p) with non-empty p (stated in evidence)"""
        self.assumptions_used.add('str.split/join axioms: len(split)>=1; every part is a str without the separator; join(sep, split(s,sep)) == s; no separator in s => split(s) == [s]; s = head+sep+rest with sep-free head => split(s)[0]==head')
        n = z3.Length(parts)
        st.assume(z3.Implies(z3.Length(p) > 0, n >= 1))
        st.assume(self.join_fn()(p, parts) == s)
        j = smt.fresh('sj', smt.Int)
        st.assume(z3.ForAll([j], z3.Implies(AND(j >= 0, j < n), AND(is_str(parts[j]), NOT(z3.Contains(s_of(parts[j]), p))))))
        st.assume(z3.Implies(NOT(z3.Contains(s, p)), parts == z3.Unit(strv(s))))
        st.assume(z3.Implies(n == 1, parts == z3.Unit(strv(s))))

    def bm_str_join(self, st, selfv, args, node):
        (xs,) = self.one_pos(args, 1, 'join')
        seq = self.seq_view(st, xs)
        sep = self.as_str(st, selfv)
        res = self.join_fn()(sep, seq)
        st.assume(z3.Implies(z3.Length(seq) == 1, res == s_of(seq[0])))
        st.assume(z3.Implies(z3.Length(seq) == 0, res == S('')))
        return self.ok(st, SV(strv(res), 'str'))

    # tuple methods on concrete tuples
    def bm_tuple_index(self, st, selfv, args, node):
        raise Unsupported('tuple.index', node)
