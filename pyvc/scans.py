# -*- coding: utf-8 -*-
"""Syntactic lemmas over the whole package (frame scans, call-graph lemmas), re-derived from the source each run."""
import ast
