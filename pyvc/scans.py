# -*- coding: utf-8 -*-
"""Syntactic lemmas over the whole package (frame scans, constant lemmas, call-graph lemmas), re-derived from the
current source on every run.  Each returns a list of obligation-like dicts {name, kind:'scan', status, detail, ...}."""
import ast

GRAPH = {
    None: {'CREATED'},
    'CREATED': {'RUNNING', 'KILLED', 'EXCEPTED'},
    'RUNNING': {'RUNNING', 'WAITING', 'FINISHED', 'KILLED', 'EXCEPTED'},
    'WAITING': {'RUNNING', 'WAITING', 'FINISHED', 'KILLED', 'EXCEPTED'},
    'FINISHED': set(), 'EXCEPTED': set(), 'KILLED': set(),
}
TERMINAL = {'FINISHED', 'EXCEPTED', 'KILLED'}


def ob(name, ok, detail, cx=None):
    d = {'name': name, 'kind': 'scan', 'status': 'proved' if ok else 'refuted', 'detail': detail, 'backend': 'ast-scan', 'seconds': 0.0,
         'reason': '', 'expect_refuted': False, 'replay': None, 'want_sat': False}
    if cx is not None:
        d['counterexample'] = {'inputs': cx}
    return d


def _label_of(expr):
    if isinstance(expr, ast.Attribute) and isinstance(expr.value, ast.Name) and expr.value.id == 'ProcessState':
        return expr.attr
    return None


def allowed_subset_graph(index, prop):
    """C01 constant lemma: for every process state class, ALLOWED is a subset of the documented lifecycle graph at its
    LABEL, and is_terminal() (ALLOWED empty) holds exactly for FINISHED / EXCEPTED / KILLED."""
    res = []
    base = index.classes['plumpy.process_states.State']
    seen_labels = set()
    for ci in index.subclasses(base):
        owner, lab = ci.lookup_class_attr('LABEL')
        label = _label_of(lab) if lab is not None else None
        if label is None:
            continue  # the abstract State
        seen_labels.add(label)
        owner, allowed = ci.lookup_class_attr('ALLOWED')
        names = set()
        okparse = True
        if isinstance(allowed, ast.Set):
            for e in allowed.elts:
                n = _label_of(e)
                if n is None:
                    okparse = False
                names.add(n)
        elif isinstance(allowed, ast.Call) and ast.unparse(allowed) == 'set()':
            pass
        else:
            okparse = False
        good = okparse and names <= GRAPH.get(label, set())
        res.append(ob(f'scan::ALLOWED_within_graph[{ci.qualname}]', good,
                      f'{ci.name}.ALLOWED = {sorted(x or "?" for x in names)} must be within the documented successors of {label}: {sorted(GRAPH.get(label, []))}',
                      {'class': ci.qualname, 'label': label, 'extra': sorted(names - GRAPH.get(label, set()), key=str)}))
        res.append(ob(f'scan::terminal_iff_no_successor[{ci.qualname}]', (not names) == (label in TERMINAL),
                      f'{ci.name}: ALLOWED empty ({not names}) iff the label {label} is terminal ({label in TERMINAL})'))
    res.append(ob('scan::all_labels_have_a_state_class', seen_labels == set(GRAPH) - {None},
                  f'state classes define labels {sorted(seen_labels)}'))
    f = index.funcs.get('plumpy.base.state_machine.State.is_terminal')
    src = ast.unparse(f.node.body[-1]) if f is not None else ''
    res.append(ob('scan::is_terminal_is_not_ALLOWED', src == 'return not cls.ALLOWED', f'State.is_terminal body: {src}'))
    return res


def state_written_only_by_the_machine(index, prop):
    """C01 frame lemma: within the package, `<obj>._state = ...` on a state machine is written only in
    StateMachine.__init__, StateMachine._enter_next_state and Process.load_instance_state; _enter_next_state is called
    only from transition_to; '_state' is not an auto-persisted member of Process."""
    allowed = {'plumpy.base.state_machine.StateMachine.__init__', 'plumpy.base.state_machine.StateMachine._enter_next_state',
               'plumpy.processes.Process.load_instance_state'}
    res = []
    writers = set()
    callers = set()
    for q, fi in index.funcs.items():
        for n in ast.walk(fi.node):
            if isinstance(n, ast.Attribute) and n.attr == '_state' and isinstance(n.ctx, (ast.Store, ast.Del)):
                # futures also have a `_state`; only count classes that are state machines
                if fi.cls is not None and any(c.qualname == 'plumpy.base.state_machine.StateMachine' for c in fi.cls.mro):
                    writers.add(q)
            if isinstance(n, ast.Call) and isinstance(n.func, ast.Attribute) and n.func.attr == '_enter_next_state':
                callers.add(q)
            if isinstance(n, ast.Call) and isinstance(n.func, ast.Name) and n.func.id == 'setattr' and len(n.args) >= 2 \
                    and isinstance(n.args[1], ast.Constant) and n.args[1].value == '_state':
                writers.add(q)
    res.append(ob('scan::_state_written_only_by_the_machine', writers <= allowed,
                  f'functions assigning `._state` of a state machine: {sorted(writers)}', {'unexpected_writers': sorted(writers - allowed)}))
    res.append(ob('scan::_enter_next_state_called_only_from_transition_to', callers <= {'plumpy.base.state_machine.StateMachine.transition_to'},
                  f'callers of _enter_next_state: {sorted(callers)}'))
    proc = index.classes['plumpy.processes.Process']
    persisted = set()
    for d in proc.decorators:
        if isinstance(d, ast.Call) and ast.unparse(d.func).endswith('auto_persist'):
            persisted |= {a.value for a in d.args if isinstance(a, ast.Constant)}
    res.append(ob('scan::_state_not_auto_persisted', '_state' not in persisted, f'Process auto-persists {sorted(persisted)}'))
    return res


def user_code_runs_in_scope(index, prop):
    """C18 call-graph lemma: the places where a process runs user code -- the state's execute (step functions and
    continuations) and call_soon callbacks -- are reached through Process._run_task, i.e. inside _process_scope."""
    res = []
    step = index.funcs['plumpy.processes.Process.step']
    src = ast.unparse(step.node)
    res.append(ob('scan::step_executes_state_inside_run_task', 'await self._run_task(self._state.execute)' in src,
                  'Process.step runs the current state through self._run_task(self._state.execute)'))
    cs = index.funcs['plumpy.processes.Process.call_soon']
    src = ast.unparse(cs.node)
    res.append(ob('scan::call_soon_wraps_callback_in_run_task', 'events.ProcessCallback(self, self._run_task, args, kwargs)' in src
                  and 'args = (callback,) + args' in src, 'Process.call_soon schedules ProcessCallback(self, self._run_task, (callback,)+args, kwargs)'))
    rt = index.funcs['plumpy.processes.Process._run_task']
    body = [s for s in rt.node.body if not (isinstance(s, ast.Expr) and isinstance(s.value, ast.Constant))]
    ok = any(isinstance(s, ast.With) and ast.unparse(s.items[0].context_expr) == 'self._process_scope()'
             and any(isinstance(n, ast.Await) for n in ast.walk(s)) for s in body)
    res.append(ob('scan::run_task_awaits_inside_the_scope', ok, '_run_task awaits the callee inside `with self._process_scope()`'))
    callers = [q for q, fi in index.funcs.items() for n in ast.walk(fi.node)
               if isinstance(n, ast.Attribute) and n.attr == 'execute' and isinstance(n.value, ast.Attribute) and n.value.attr == '_state']
    res.append(ob('scan::state_execute_only_from_step', set(callers) <= {'plumpy.processes.Process.step'},
                  f'functions referring to self._state.execute: {sorted(set(callers))}'))
    return res


def hooks_run_in_scope(index, prop):
    """C18 for lifecycle hooks: the state transition at the end of a step (which runs on_run / on_finish / ... and the
    listeners) must be performed inside the process scope as well."""
    step = index.funcs['plumpy.processes.Process.step']
    inside = False
    for n in ast.walk(step.node):
        if isinstance(n, (ast.With, ast.AsyncWith)) and any('_process_scope' in ast.unparse(i.context_expr) for i in n.items):
            txt = ast.unparse(n)
            if 'transition_to' in txt and '_interrupt_action.run' in txt:
                inside = True
    meta = index.funcs['plumpy.base.state_machine.StateMachineMeta.__call__']
    return [ob('scan::transition_hooks_run_in_scope', inside,
               'Process.step performs self.transition_to(next_state) / self._interrupt_action.run(next_state) inside `with self._process_scope()`',
               {'function': 'plumpy.processes.Process.step'})]
