# -*- coding: utf-8 -*-
"""pyvc.source -- re-reads /repo/src/plumpy with ``ast`` on every run and builds the module / class /
function tables the verifier works on.  Nothing is imported or executed from the repository."""
from __future__ import annotations

import ast
import os
from typing import Dict, List, Optional

REPO_SRC = os.environ.get('PYVC_REPO_SRC', '/repo/src')
PKG = 'plumpy'


class FuncInfo:
    def __init__(self, qualname, node, module, cls=None, outer=None):
        self.qualname = qualname  # plumpy.mod.Class.meth or plumpy.mod.func or ...<inner>
        self.node = node
        self.module = module  # ModuleInfo
        self.cls = cls  # ClassInfo or None
        self.outer = outer  # enclosing FuncInfo for nested defs
        self.name = node.name if not isinstance(node, ast.Lambda) else '<lambda>'
        self.is_async = isinstance(node, ast.AsyncFunctionDef)
        self.decorators = [] if isinstance(node, ast.Lambda) else [ast.unparse(d) for d in node.decorator_list]
        self.kind = 'function'
        if cls is not None and outer is None:
            self.kind = 'method'
            for d in self.decorators:
                if d == 'staticmethod':
                    self.kind = 'static'
                elif d == 'classmethod':
                    self.kind = 'class'
                elif d == 'property':
                    self.kind = 'property'
                elif d.endswith('.setter'):
                    self.kind = 'setter'
        self.inner: Dict[str, 'FuncInfo'] = {}
        self.id: int = -1

    def __repr__(self):
        return f'<Func {self.qualname}>'

    def source_text(self):
        return ast.get_source_segment(self.module.text, self.node) or ''


class ClassInfo:
    def __init__(self, qualname, node, module, external=False):
        self.qualname = qualname
        self.name = qualname.rsplit('.', 1)[-1]
        self.node = node
        self.module = module
        self.external = external
        self.base_names: List[str] = []
        self.bases: List['ClassInfo'] = []
        self.mro: List['ClassInfo'] = []
        self.methods: Dict[str, FuncInfo] = {}
        self.setters: Dict[str, FuncInfo] = {}
        self.class_attrs: Dict[str, ast.expr] = {}
        self.decorators: List[ast.expr] = []
        self.metaclass: Optional[str] = None
        self.id: int = -1
        self.inst_attrs: set = set()  # names assigned as self.X in any method of this class

    def __repr__(self):
        return f'<Class {self.qualname}>'

    def lookup(self, name):
        """MRO lookup of a method/property; returns FuncInfo or None"""
        for c in self.mro:
            if name in c.methods:
                return c.methods[name]
        return None

    def lookup_after(self, after: 'ClassInfo', name):
        """super() lookup: first definition of name in the MRO strictly after `after`"""
        seen = False
        for c in self.mro:
            if seen and name in c.methods:
                return c.methods[name]
            if c is after:
                seen = True
        return None

    def lookup_setter(self, name):
        for c in self.mro:
            if name in c.setters:
                return c.setters[name]
            if name in c.methods and c.methods[name].kind == 'property':
                return None
        return None

    def lookup_class_attr(self, name):
        for c in self.mro:
            if name in c.class_attrs:
                return c, c.class_attrs[name]
        return None, None

    def is_subclass_of(self, other: 'ClassInfo'):
        return other in self.mro

    def has_attr_decl(self, name):
        for c in self.mro:
            if name in c.inst_attrs or name in c.class_attrs or name in c.methods:
                return True
        return False


class ModuleInfo:
    def __init__(self, name, path, text, tree):
        self.name = name
        self.path = path
        self.text = text
        self.tree = tree
        self.imports: Dict[str, str] = {}  # local name -> qualified target
        self.consts: Dict[str, ast.expr] = {}
        self.funcs: Dict[str, FuncInfo] = {}
        self.classes: Dict[str, ClassInfo] = {}
        self.aliases: Dict[str, str] = {}  # NAME = other.qualified.name


# builtin / external classes we model by name.  (name, bases)
BUILTIN_CLASSES = [
    ('object', []),
    ('type', ['object']),
    ('NoneType', ['object']),
    ('bool', ['int']),
    ('int', ['object']),
    ('str', ['object']),
    ('float', ['object']),
    ('dict', ['object']),
    ('list', ['object']),
    ('tuple', ['object']),
    ('set', ['object']),
    ('frozenset', ['object']),
    ('function', ['object']),
    ('method', ['object']),
    ('module', ['object']),
    ('BaseException', ['object']),
    ('Exception', ['BaseException']),
    ('KeyboardInterrupt', ['BaseException']),
    ('SystemExit', ['BaseException']),
    ('GeneratorExit', ['BaseException']),
    ('asyncio.CancelledError', ['BaseException']),
    ('ArithmeticError', ['Exception']),
    ('AssertionError', ['Exception']),
    ('AttributeError', ['Exception']),
    ('LookupError', ['Exception']),
    ('KeyError', ['LookupError']),
    ('IndexError', ['LookupError']),
    ('ValueError', ['Exception']),
    ('TypeError', ['Exception']),
    ('RuntimeError', ['Exception']),
    ('NotImplementedError', ['RuntimeError']),
    ('ImportError', ['Exception']),
    ('ModuleNotFoundError', ['ImportError']),
    ('OSError', ['Exception']),
    ('FileNotFoundError', ['OSError']),
    ('StopIteration', ['Exception']),
    ('asyncio.InvalidStateError', ['Exception']),
    ('asyncio.TimeoutError', ['Exception']),
    ('Warning', ['Exception']),
    ('UserWarning', ['Warning']),
    ('DeprecationWarning', ['Warning']),
    ('UserException', ['Exception']),  # placeholder: any exception class defined by user code
    ('UserObject', ['object']),
    ('UserCallEvent', ['object']),  # ghost: one record per call into unknown (user) code  # placeholder: any object of a class unknown to the class table
    ('asyncio.Future', ['object']),
    ('kiwipy.Future', ['object']),
    ('kiwipy.CancelledError', ['Exception']),  # = concurrent.futures.CancelledError(Error(Exception))
    ('concurrent.futures.InvalidStateError', ['Exception']),
    ('kiwipy.TimeoutError', ['Exception']),
    ('kiwipy.RemoteException', ['Exception']),
    ('kiwipy.DeliveryFailed', ['Exception']),
    ('kiwipy.TaskRejected', ['Exception']),
    ('kiwipy.Communicator', ['object']),
    ('kiwipy.BroadcastFilter', ['object']),
    ('aio_pika.exceptions.ConnectionClosed', ['Exception']),
    ('aio_pika.exceptions.ChannelInvalidStateError', ['Exception']),
    ('collections.abc.Mapping', ['object']),
    ('collections.abc.MutableMapping', ['collections.abc.Mapping']),
    ('collections.abc.Sequence', ['object']),
    ('types.SimpleNamespace', ['object']),
    ('enum.Enum', ['object']),
    ('abc.ABCMeta', ['type']),
    ('uuid.UUID', ['object']),
    ('logging.Logger', ['object']),
    ('property', ['object']),
    ('functools.partial', ['object']),
    ('asyncio.DefaultEventLoopPolicy', ['object']),
    ('asyncio.AbstractEventLoop', ['object']),
    ('tuple_namedtuple', ['tuple']),
    ('contextvars.ContextVar', ['object']),
]

EXTERNAL_ALIASES = {
    'Exception': 'Exception', 'BaseException': 'BaseException', 'object': 'object', 'dict': 'dict',
    'type': 'type', 'ValueError': 'ValueError', 'TypeError': 'TypeError', 'RuntimeError': 'RuntimeError',
    'KeyError': 'KeyError', 'AttributeError': 'AttributeError', 'AssertionError': 'AssertionError',
    'IndexError': 'IndexError', 'OSError': 'OSError', 'ImportError': 'ImportError',
    'KeyboardInterrupt': 'KeyboardInterrupt', 'NotImplementedError': 'NotImplementedError',
    'FileNotFoundError': 'FileNotFoundError', 'LookupError': 'LookupError', 'StopIteration': 'StopIteration',
    'list': 'list', 'tuple': 'tuple', 'set': 'set', 'str': 'str', 'int': 'int', 'bool': 'bool', 'float': 'float',
    'frozenset': 'frozenset', 'property': 'property', 'UserWarning': 'UserWarning', 'DeprecationWarning': 'DeprecationWarning',
    'Warning': 'Warning',
    'asyncio.Future': 'asyncio.Future', 'asyncio.futures.Future': 'asyncio.Future',
    'asyncio.CancelledError': 'asyncio.CancelledError', 'asyncio.InvalidStateError': 'asyncio.InvalidStateError',
    'asyncio.TimeoutError': 'asyncio.TimeoutError',
    'kiwipy.Future': 'kiwipy.Future', 'kiwipy.CancelledError': 'kiwipy.CancelledError',
    'concurrent.futures.InvalidStateError': 'concurrent.futures.InvalidStateError',
    'kiwipy.TimeoutError': 'kiwipy.TimeoutError', 'kiwipy.RemoteException': 'kiwipy.RemoteException',
    'kiwipy.DeliveryFailed': 'kiwipy.DeliveryFailed', 'kiwipy.TaskRejected': 'kiwipy.TaskRejected',
    'kiwipy.Communicator': 'kiwipy.Communicator', 'kiwipy.BroadcastFilter': 'kiwipy.BroadcastFilter',
    'aio_pika.exceptions.ConnectionClosed': 'aio_pika.exceptions.ConnectionClosed',
    'aio_pika.exceptions.ChannelInvalidStateError': 'aio_pika.exceptions.ChannelInvalidStateError',
    'collections.abc.Mapping': 'collections.abc.Mapping', 'collections.abc.MutableMapping': 'collections.abc.MutableMapping',
    'collections.abc.Sequence': 'collections.abc.Sequence', 'typing.Mapping': 'collections.abc.Mapping',
    'typing.Sequence': 'collections.abc.Sequence', 'typing.MutableMapping': 'collections.abc.MutableMapping',
    'types.SimpleNamespace': 'types.SimpleNamespace', 'enum.Enum': 'enum.Enum', 'abc.ABCMeta': 'abc.ABCMeta',
    'uuid.UUID': 'uuid.UUID', 'logging.Logger': 'logging.Logger', 'functools.partial': 'functools.partial',
    'asyncio.DefaultEventLoopPolicy': 'asyncio.DefaultEventLoopPolicy',
    'asyncio.AbstractEventLoop': 'asyncio.AbstractEventLoop',
    'types.MethodType': 'method',
    'contextvars.ContextVar': 'contextvars.ContextVar', 'aiocontextvars.ContextVar': 'contextvars.ContextVar',
}


def c3_merge(seqs):
    res = []
    seqs = [list(s) for s in seqs if s]
    while seqs:
        for s in seqs:
            cand = s[0]
            if not any(cand in t[1:] for t in seqs):
                break
        else:
            raise TypeError('inconsistent MRO')
        res.append(cand)
        seqs = [[x for x in s if x is not cand] for s in seqs]
        seqs = [s for s in seqs if s]
    return res


class SourceIndex:
    def __init__(self, root=None):
        self.root = root or REPO_SRC
        self.modules: Dict[str, ModuleInfo] = {}
        self.classes: Dict[str, ClassInfo] = {}
        self.funcs: Dict[str, FuncInfo] = {}
        self.class_by_id: Dict[int, ClassInfo] = {}
        self.func_by_id: Dict[int, FuncInfo] = {}
        self.unresolved_bases = []
        self._load()

    # ------------------------------------------------------------------ loading
    def _load(self):
        for name, bases in BUILTIN_CLASSES:
            ci = ClassInfo(name, None, None, external=True)
            ci.base_names = bases
            self.classes[name] = ci
        pkgroot = os.path.join(self.root, PKG)
        for dirpath, _dirs, files in sorted(os.walk(pkgroot)):
            for fn in sorted(files):
                if not fn.endswith('.py'):
                    continue
                path = os.path.join(dirpath, fn)
                rel = os.path.relpath(path, self.root)[:-3].replace(os.sep, '.')
                if rel.endswith('.__init__'):
                    rel = rel[: -len('.__init__')]
                text = open(path, encoding='utf-8').read()
                tree = ast.parse(text, filename=path)
                self.modules[rel] = ModuleInfo(rel, path, text, tree)
        for m in self.modules.values():
            self._scan_module(m)
        self._resolve_bases()
        nid = 1
        for ci in self.classes.values():
            ci.id = nid
            self.class_by_id[nid] = ci
            nid += 1
        for fi in self.funcs.values():
            fi.id = nid
            self.func_by_id[nid] = fi
            nid += 1
        self.first_free_id = nid + 1000

    def _pkg_of(self, m: ModuleInfo):
        # package name for relative imports
        if m.path.endswith('__init__.py'):
            return m.name
        return m.name.rsplit('.', 1)[0]

    def _scan_module(self, m: ModuleInfo):
        def visit_body(body, in_try=False):
            for node in body:
                if isinstance(node, ast.Import):
                    for a in node.names:
                        m.imports[(a.asname or a.name.split('.')[0])] = a.name if a.asname else a.name.split('.')[0]
                elif isinstance(node, ast.ImportFrom):
                    base = node.module or ''
                    if node.level:
                        pkg = self._pkg_of(m)
                        for _ in range(node.level - 1):
                            pkg = pkg.rsplit('.', 1)[0]
                        base = pkg + ('.' + base if base else '')
                    for a in node.names:
                        m.imports[a.asname or a.name] = base + '.' + a.name
                elif isinstance(node, (ast.FunctionDef, ast.AsyncFunctionDef)):
                    self._add_func(m, node, None, None, m.name)
                elif isinstance(node, ast.ClassDef):
                    self._add_class(m, node)
                elif isinstance(node, ast.Assign) and len(node.targets) == 1 and isinstance(node.targets[0], ast.Name):
                    m.consts[node.targets[0].id] = node.value
                elif isinstance(node, ast.AnnAssign) and isinstance(node.target, ast.Name) and node.value is not None:
                    m.consts[node.target.id] = node.value
                elif isinstance(node, ast.Try):
                    visit_body(node.body, True)
                elif isinstance(node, ast.If):
                    # TYPE_CHECKING blocks are dropped; other module-level ifs are not expected
                    if 'TYPE_CHECKING' in ast.unparse(node.test):
                        continue
                    visit_body(node.body)

        visit_body(m.tree.body)

    def _add_func(self, m, node, cls, outer, prefix):
        qn = prefix + '.' + node.name
        fi = FuncInfo(qn, node, m, cls, outer)
        if cls is not None and outer is None:
            if fi.kind == 'setter':
                cls.setters[node.name] = fi
                fi.qualname = qn + '.setter'
                self.funcs[fi.qualname] = fi
            else:
                cls.methods[node.name] = fi
                self.funcs[qn] = fi
        elif outer is not None:
            fi.qualname = outer.qualname + '.<' + node.name + '>'
            outer.inner[node.name] = fi
            self.funcs[fi.qualname] = fi
        else:
            m.funcs[node.name] = fi
            self.funcs[qn] = fi
        # nested defs
        for sub in ast.walk(node):
            if sub is node:
                continue
        self._scan_inner(m, node, cls, fi)
        return fi

    def _scan_inner(self, m, node, cls, fi):
        # direct nested function definitions (any statement depth, but not inside further defs)
        def walk(stmts):
            for s in stmts:
                if isinstance(s, (ast.FunctionDef, ast.AsyncFunctionDef)):
                    self._add_func(m, s, cls, fi, fi.qualname)
                elif isinstance(s, ast.ClassDef):
                    continue
                else:
                    for fld in ('body', 'orelse', 'finalbody'):
                        sub = getattr(s, fld, None)
                        if isinstance(sub, list):
                            walk(sub)
                    if isinstance(s, ast.Try):
                        for h in s.handlers:
                            walk(h.body)
                    if isinstance(s, (ast.With, ast.AsyncWith)):
                        pass

        walk(node.body)

    def _add_class(self, m, node):
        qn = m.name + '.' + node.name
        ci = ClassInfo(qn, node, m)
        m.classes[node.name] = ci
        self.classes[qn] = ci
        ci.decorators = list(node.decorator_list)
        ci.base_names = [ast.unparse(b) for b in node.bases]
        for kw in node.keywords:
            if kw.arg == 'metaclass':
                ci.metaclass = ast.unparse(kw.value)
        for s in node.body:
            if isinstance(s, (ast.FunctionDef, ast.AsyncFunctionDef)):
                self._add_func(m, s, ci, None, qn)
            elif isinstance(s, ast.Assign) and len(s.targets) == 1 and isinstance(s.targets[0], ast.Name):
                ci.class_attrs[s.targets[0].id] = s.value
            elif isinstance(s, ast.AnnAssign) and isinstance(s.target, ast.Name) and s.value is not None:
                ci.class_attrs[s.target.id] = s.value
        for s in ast.walk(node):
            if isinstance(s, ast.Attribute) and isinstance(s.ctx, ast.Store) and isinstance(s.value, ast.Name) and s.value.id == 'self':
                ci.inst_attrs.add(s.attr)

    def resolve_name(self, m: ModuleInfo, dotted: str) -> Optional[str]:
        """Resolve a dotted name as written in module m to a qualified name known to the index
        (class/function/module) or an external alias; None if unknown."""
        parts = dotted.split('.')
        head = parts[0]
        if head in m.classes and len(parts) == 1:
            return m.classes[head].qualname
        if head in m.funcs and len(parts) == 1:
            return m.funcs[head].qualname
        if head in m.imports:
            full = '.'.join([m.imports[head]] + parts[1:])
        elif head in m.classes:
            full = m.name + '.' + dotted
        elif head in m.consts and len(parts) == 1:
            v = m.consts[head]
            if isinstance(v, (ast.Name, ast.Attribute)):
                return self.resolve_name(m, ast.unparse(v))
            return m.name + '.' + head
        else:
            full = dotted
        return self.canon(full)

    def canon(self, full: str) -> Optional[str]:
        """Follow re-exports (plumpy.x imported into plumpy.y) to a canonical qualified name"""
        for _ in range(10):
            if full in self.classes or full in self.funcs or full in self.modules:
                return full
            if full in EXTERNAL_ALIASES:
                return EXTERNAL_ALIASES[full]
            # maybe module.attr where attr is imported/aliased in that module
            if '.' in full:
                modname, attr = full.rsplit('.', 1)
                mm = self.modules.get(modname)
                if mm is not None:
                    if attr in mm.imports:
                        full = mm.imports[attr]
                        continue
                    if attr in mm.consts:
                        v = mm.consts[attr]
                        if isinstance(v, (ast.Name, ast.Attribute)):
                            r = self.resolve_name(mm, ast.unparse(v))
                            if r:
                                return r
                        return full
                # class attribute path e.g. mod.Class.meth
                if modname in self.classes:
                    return full
            return None
        return None

    def _resolve_bases(self):
        for ci in list(self.classes.values()):
            for bn in ci.base_names:
                if ci.external:
                    ci.bases.append(self.classes[bn])
                    continue
                r = self.resolve_name(ci.module, bn)
                if r is None or r not in self.classes:
                    # unknown external base class: treated as plain `object` (recorded)
                    self.unresolved_bases.append((ci.qualname, bn))
                    r = 'object'
                if self.classes[r] not in ci.bases:
                    ci.bases.append(self.classes[r])
            if not ci.bases and ci.qualname != 'object':
                ci.bases.append(self.classes['object'])
        done = {}

        def mro(c):
            if c.qualname in done:
                return done[c.qualname]
            res = [c] + c3_merge([mro(b) for b in c.bases] + [list(c.bases)])
            done[c.qualname] = res
            return res

        for ci in self.classes.values():
            ci.mro = mro(ci)

    # ------------------------------------------------------------------ queries
    def subclasses(self, ci: ClassInfo):
        return [c for c in self.classes.values() if ci in c.mro]

    def get_func(self, qualname) -> FuncInfo:
        return self.funcs[qualname]

    def get_class(self, qualname) -> ClassInfo:
        return self.classes[qualname]


if __name__ == '__main__':
    idx = SourceIndex()
    print(len(idx.modules), 'modules', len(idx.classes), 'classes', len(idx.funcs), 'functions')
    for q in ['plumpy.processes.Process', 'plumpy.workchains.WorkChain', 'plumpy.workchains.Waiting',
              'plumpy.workchains._While', 'plumpy.persistence.SavableFuture']:
        print(q, [c.name for c in idx.classes[q].mro])
    print(sorted(k for k in idx.funcs if '<' in k))
