# -*- coding: utf-8 -*-
"""pyvc.calls -- call resolution: repository functions (contract or inline), classes (construction), bound
methods, closures, values of unknown callee (user calls)."""
from __future__ import annotations

import ast
import os
from typing import List

import z3

from . import smt
from .smt import (AND, FALSE, I, NOT, OR, S, TRUE, Val, b_of, boolv, i_of, intv, is_bool, is_int, is_none, is_ref,
                  is_str, none, r_of, ref, s_of, strv)
from .values import (NamedTupleClsV, SV, Args, BoolTermV, BoundV, BuiltinV, ClassV, Frame, FuncV, LambdaV, ModuleV, Out, RawV,
                     SeqTermV, St, SuperV, TupleV, Unsupported, V)


LOG_METHODS = {'debug', 'info', 'warning', 'error', 'exception', 'critical', 'log'}


class CtxV(V):
    """A context manager value: enter(engine, st) -> outs ; exit(engine, body_out) -> outs"""

    def __init__(self, enter, exit_):
        self.enter = enter
        self.exit = exit_


class PartialV(V):
    def __init__(self, fn, args: Args):
        self.fn = fn
        self.args = args


class KwDictV(V):
    """The **kwargs dictionary of a call, kept Python-side: explicit items plus an optional symbolic rest dict"""

    def __init__(self, items, rest):
        self.items = dict(items)
        self.rest = rest


class WrappedV(V):
    """The `wrapped` function captured by a repository decorator's wrapper: calling it continues with the
    decorated function (the remaining decorators and then the body)."""

    def __init__(self, k, name):
        self.k = k
        self.name = name


class DynMRO:
    """super() resolution when the dynamic class of the receiver is only known up to a bound"""

    def __init__(self, eng, selfv, after):
        self.eng = eng
        self.selfv = selfv
        self.after = after

    def groups(self, name):
        cands = [c for c in self.eng.index.subclasses(self.selfv.cls) if self.after in c.mro]
        if self.selfv.exact:
            cands = [self.selfv.cls]
        g = {}
        for c in cands:
            g.setdefault(c.lookup_after(self.after, name), []).append(c)
        return g


class CallMixin:
    # ------------------------------------------------------------------ call expression
    def ev_Call(self, st, node: ast.Call):
        # super() special form
        if isinstance(node.func, ast.Name) and node.func.id == 'super' and 'super' not in st.loc:
            return self.ok(st, self.make_super(st, node))
        if isinstance(node.func, ast.Name) and node.func.id == 'cast' and len(node.args) == 2:
            return self.ev(st, node.args[1])
        if isinstance(node.func, ast.Attribute) and node.func.attr in LOG_METHODS:
            base_src = ast.unparse(node.func.value)
            if base_src.endswith('logger') or base_src.endswith('LOGGER') or base_src.endswith('_logger'):
                # A-LOG: logging calls are no-ops that do not raise; their arguments are not evaluated (messages only)
                self.note('logging calls are dropped (A-LOG): ' + base_src + '.' + node.func.attr)
                return self.ok(st, self.py_none())
        if isinstance(node.func, ast.Name) and node.func.id in ('any', 'all') and len(node.args) == 1 \
                and isinstance(node.args[0], ast.GeneratorExp) and node.func.id not in st.loc:
            return self.quantify_generator(st, node.args[0], node.func.id == 'all', node)

        def after_func(st2, fv):
            return self.ev_args(st2, node, lambda st3, args: self.call(st3, fv, args, node))

        return self.bind(self.ev(st, node.func), after_func)

    def make_super(self, st, node):
        fr = st.frame
        if node.args:
            # super(Cls, self) / super(PortNamespace, self.__class__)
            outs = self.ev_seq(st, node.args, lambda s2, vals: self.ok(s2, TupleV(vals)))
            if len(outs) != 1:
                raise Unsupported('super(args) forks', node)
            a, b = outs[0].val.items
            if not isinstance(a, ClassV):
                raise Unsupported('super(non-class, ..)', node)
            sv = SuperV(a.ci, b)
        else:
            if fr is None or fr.cls_ctx is None:
                raise Unsupported('super() outside method', node)
            sv = SuperV(fr.cls_ctx, fr.selfv)
        selfv = sv.selfv
        sv.clsv = None
        if isinstance(selfv, ClassV):
            sv.selfv_cls = selfv.ci
            sv.clsv = selfv
            sv.is_class = True
        elif isinstance(selfv, SV):
            if selfv.cls is None:
                raise Unsupported('super() with receiver of unknown class', node)
            # dynamic class decides the MRO; we require all candidate classes to agree on the next-in-MRO lookup,
            # checked lazily at attribute resolution through DynSuper
            sv.selfv_cls = DynMRO(self, selfv, sv.after)
            sv.is_class = False
            sv.clsv = self.class_of_value(st, selfv)
        else:
            raise Unsupported(f'super() receiver {selfv!r}', node)
        return sv

    def ev_args(self, st, node: ast.Call, k):
        """Evaluate call arguments into Args"""
        items = []
        for a in node.args:
            items.append(('star', a.value) if isinstance(a, ast.Starred) else ('pos', a))
        for kw in node.keywords:
            items.append(('kwstar', kw.value) if kw.arg is None else ('kw:' + kw.arg, kw.value))

        def rec(st, i, acc):
            if i == len(items):
                return k(st, self.build_args(st, acc))
            outs = []
            for o in self.ev(st, items[i][1]):
                if o.kind != 'ok':
                    outs.append(o)
                else:
                    outs.extend(rec(o.st, i + 1, acc + [(items[i][0], o.val)]))
            return outs

        return rec(st, 0, [])

    def build_args(self, st, acc) -> Args:
        args = Args()
        for tag, v in acc:
            if tag == 'pos':
                if args.tail is not None:
                    args.tail = z3.Concat(args.tail, z3.Unit(self.to_term(st, v)))
                else:
                    args.pos.append(v)
            elif tag == 'star':
                if isinstance(v, TupleV) and args.tail is None:
                    args.pos.extend(v.items)
                else:
                    seq = self.seq_view(st, v)
                    args.tail = seq if args.tail is None else z3.Concat(args.tail, seq)
            elif tag == 'kwstar':
                if isinstance(v, KwDictV):
                    args.kw.update(v.items)
                    if v.rest is not None:
                        if args.kwrest is not None:
                            raise Unsupported('two symbolic ** arguments')
                        args.kwrest = v.rest
                else:
                    if args.kwrest is not None:
                        raise Unsupported('two symbolic ** arguments')
                    if not isinstance(v, SV):
                        raise Unsupported(f'** of {v!r}')
                    args.kwrest = v
            else:
                args.kw[tag[3:]] = v
        return args

    # ------------------------------------------------------------------ generic call
    def call(self, st: St, fv: V, args: Args, node=None) -> List[Out]:
        if isinstance(fv, FuncV):
            return self.call_function(st, fv, args, node)
        if isinstance(fv, LambdaV):
            return self.call_lambda(st, fv, args, node)
        if isinstance(fv, BoundV):
            if isinstance(fv.fn, BuiltinV):
                return self.call_builtin_method(st, fv.fn.name, fv.selfv, args, node)
            a2 = Args([fv.selfv] + args.pos, args.tail, args.kw, args.kwrest)
            return self.call(st, fv.fn, a2, node)
        if isinstance(fv, ClassV):
            return self.construct(st, fv.ci, args, node)
        if isinstance(fv, BuiltinV):
            return self.call_builtin(st, fv.name, args, node)
        if isinstance(fv, PartialV):
            pa = fv.args
            if pa.tail is not None or args.tail is not None and pa.kwrest is not None:
                raise Unsupported('partial with symbolic tail')
            kw = dict(pa.kw)
            kw.update(args.kw)
            return self.call(st, fv.fn, Args(pa.pos + args.pos, args.tail, kw, args.kwrest or pa.kwrest), node)
        if isinstance(fv, NamedTupleClsV):
            if args.tail is not None or args.kwrest is not None:
                raise Unsupported('namedtuple construction with * arguments', node)
            vals = list(args.pos)
            for f in fv.fields[len(vals):]:
                if f not in args.kw:
                    return [self.raise_new(st, 'TypeError')]
                vals.append(args.kw[f])
            if len(vals) != len(fv.fields):
                return [self.raise_new(st, 'TypeError')]
            st = st.copy()
            o = self.alloc(st, self.cls('tuple_namedtuple'))
            terms = [self.to_term(st, x) for x in vals]
            st.LS = z3.Store(st.LS, r_of(o.term), self.seq_of_terms(terms))
            for f, t in zip(fv.fields, terms):
                self.hstore(st, r_of(o.term), f, t)
            return self.ok(st, o)
        if isinstance(fv, SV):
            return self.call_value(st, fv, args, node)
        raise Unsupported(f'call of {fv!r}', node)

    # ------------------------------------------------------------------ repository functions
    def call_function(self, st: St, fv: FuncV, args: Args, node=None) -> List[Out]:
        fi = fv.fi
        # decorators that wrap behaviour
        c = self.contract_for(fi, st)
        if c is not None and not self.is_unit_root(fi, st):
            return self.apply_contract(st, c, fi, fv, args, node)
        return self.inline(st, fv, args, node)

    def is_unit_root(self, fi, st):
        """True if fi is the function currently being verified and we are at its outermost activation"""
        return False

    def inline(self, st: St, fv: FuncV, args: Args, node=None) -> List[Out]:
        fi = fv.fi
        if st.depth > self.max_inline_depth:
            raise Unsupported(f'inline depth exceeded at {fi.qualname}', node)
        key = fi.qualname
        stack = getattr(st, '_stack', None)
        chain = self.call_chain(st)
        if key in chain and chain.count(key) >= 2:
            raise Unsupported(f'recursive call of {fi.qualname} without contract', node)
        outs = self.apply_decorators(st, fv, args, node)
        return outs

    def call_chain(self, st):
        fr = st.frame
        res = []
        while fr is not None:
            if fr.fi is not None:
                res.append(fr.fi.qualname)
            fr = getattr(fr, 'parent', None)
        return res

    def apply_decorators(self, st, fv: FuncV, args: Args, node):
        """Compose repository decorators mechanically around the body (their wrappers are real code)."""
        fi = fv.fi
        decs = [d for d in fi.decorators if d not in ('staticmethod', 'classmethod', 'property', 'abc.abstractmethod',
                                                      'contextlib.contextmanager') and not d.endswith('.setter')
                and not d.startswith('functools.wraps')]
        if 'contextlib.contextmanager' in fi.decorators:
            return self.make_ctxmanager(st, fv, args, node)
        return self.run_with_decorators(st, fv, args, decs, node)

    def run_with_decorators(self, st, fv, args, decs, node):
        fi = fv.fi
        if not decs:
            return self.run_body(st, fv, args, node)
        d, rest = decs[0], decs[1:]
        inner = lambda st2, args2: self.run_with_decorators(st2, fv, args2, rest, node)
        if d == 'super_check':
            # base/utils.super_check: the `_called` bookkeeping is dropped (stated in DESIGN: A-SUPER)
            return inner(st, args)
        if d in ('protected', 'utils.protected', 'override', 'utils.override', 'lang.protected(check=check_protected)'):
            # lang.protected / lang.override with check=False (settings.check_protected/override are False): identity
            if not self.settings_checks_off():
                raise Unsupported('protected/override checks enabled in settings.py')
            return inner(st, args)
        if d == 'ensure_not_closed':
            selfv = args.pos[0]
            outs = []
            for o in self.getattr_v(st, selfv, '_closed'):
                if o.kind != 'ok':
                    outs.append(o)
                    continue
                t, f = self.fork(o.st, self.truthy(o.st, o.val))
                if t is not None:
                    outs.append(self.raise_new(t, 'plumpy.exceptions.ClosedError'))
                if f is not None:
                    outs.extend(inner(f, args))
            # make sure the wrapper text is still what we model
            self.check_wrapper_text('plumpy.processes.ensure_not_closed.<func_wrapper>',
                                    ['if self._closed:', "raise exceptions.ClosedError('Process is closed')", 'return func(self, *args, **kwargs)'])
            return outs
        if d.startswith('event(') or d == 'event':
            return self.event_wrapper(st, fv, args, d, inner, node)
        if d.startswith('persistence.auto_persist') or d.startswith('auto_persist'):
            return inner(st, args)
        raise Unsupported(f'decorator {d} on {fi.qualname}', node)

    def settings_checks_off(self):
        m = self.index.modules.get('plumpy.settings')
        if m is None:
            return False
        ok = True
        for n in ('check_protected', 'check_override'):
            v = m.consts.get(n)
            ok = ok and isinstance(v, ast.Constant) and v.value is False
        return ok

    def check_wrapper_text(self, qualname, needles):
        fi = self.index.funcs.get(qualname)
        if fi is None:
            raise Unsupported(f'decorator wrapper {qualname} disappeared')
        txt = fi.source_text()
        for n in needles:
            if n not in txt:
                raise Unsupported(f'decorator wrapper {qualname} no longer matches the modelled text: missing `{n}`')

    def event_wrapper(self, st, fv, args, d, inner, node):
        """state_machine.event(...).<wrapper>.<transition> composed around the method: executed from its real source"""
        tr = self.index.funcs['plumpy.base.state_machine.event.<wrapper>.<transition>']
        dec = ast.parse(d, mode='eval').body
        from_states = to_states = self.py_str('*')
        env = {}
        if isinstance(dec, ast.Call):
            fr = Frame(fv.fi, None, fv.fi.cls, None, fv.fi.module)
            saved = (st.frame, st.loc)
            st.frame, st.loc = fr, {}
            try:
                for kw in dec.keywords:
                    o = self.ev(st, kw.value)
                    assert len(o) == 1 and o[0].kind == 'ok'
                    val = o[0].val
                    if isinstance(val, ClassV):
                        val = TupleV([val])  # inspect.isclass(from_states) -> (from_states,)
                    if kw.arg == 'from_states':
                        from_states = val
                    elif kw.arg == 'to_states':
                        to_states = val
            finally:
                st.frame, st.loc = saved
        wrapped = WrappedV(inner, fv.fi.name)
        env = {'from_states': from_states, 'to_states': to_states, 'wrapped': wrapped,
               'evt_label': self.py_str(fv.fi.name)}
        return self.run_body(st, FuncV(tr, env), args, node)

    # ------------------------------------------------------------------ parameter binding + body
    def bind_params(self, st: St, fnode, args: Args, fi_desc='') -> List:
        """-> list of (st, locals dict) or Out (TypeError).  Handles *args/**kwargs with symbolic tails."""
        a = fnode.args
        params = [p.arg for p in a.posonlyargs + a.args]
        defaults = [None] * (len(params) - len(a.defaults)) + list(a.defaults)
        loc = {}
        st = st.copy()
        pos = list(args.pos)
        tail = args.tail
        kw = dict(args.kw)
        results = []
        pending_default = []
        for i, p in enumerate(params):
            if pos:
                loc[p] = pos.pop(0)
                if p in kw:
                    return [self.raise_new(st, 'TypeError')]
            elif tail is not None:
                # take from symbolic tail if non-empty
                nonempty = z3.Length(tail) >= 1
                if p in kw or defaults[i] is not None or args.kwrest is not None:
                    t, f = self.fork(st, nonempty)
                    if t is not None and f is not None:
                        # both feasible: split the call into "tail exhausted" and "tail supplies this parameter"
                        a_empty = Args(list(args.pos), None, dict(args.kw), args.kwrest)
                        a_more = Args(list(args.pos) + [SV(tail[0])], z3.SubSeq(tail, 1, z3.Length(tail) - 1), dict(args.kw), args.kwrest)
                        if len(args.pos) != i:
                            raise Unsupported(f'ambiguous positional binding of {p} from symbolic *args {fi_desc}')
                        return results + self.bind_params(f, fnode, a_empty, fi_desc) + self.bind_params(t, fnode, a_more, fi_desc)
                    if t is not None:
                        st = t
                        loc[p] = SV(tail[0])
                        tail = z3.SubSeq(tail, 1, z3.Length(tail) - 1)
                        continue
                    st = f
                    tail = None
                    # fallthrough to kw/default
                    if p in kw:
                        loc[p] = kw.pop(p)
                    elif args.kwrest is not None:
                        pending_default.append((p, defaults[i]))
                    else:
                        pending_default.append((p, defaults[i]))
                    continue
                t, f = self.fork(st, nonempty)
                if f is not None:
                    results.append(self.raise_new(f, 'TypeError'))
                if t is None:
                    return results
                st = t
                val = tail[0]
                st.assume(self.older(st, val))
                loc[p] = SV(smt.simp(val))
                tail = smt.simp(z3.SubSeq(tail, 1, z3.Length(tail) - 1))
            elif p in kw:
                loc[p] = kw.pop(p)
            else:
                pending_default.append((p, defaults[i]))
        # *args
        if a.vararg is not None:
            if tail is None:
                loc[a.vararg.arg] = TupleV(pos)
            else:
                seq = tail if not pos else z3.Concat(self.seq_of_terms([self.to_term(st, x) for x in pos]), tail)
                o = self.alloc(st, self.cls('tuple'))
                st.LS = z3.Store(st.LS, r_of(o.term), smt.simp(seq))
                loc[a.vararg.arg] = o
        else:
            if pos:
                results.append(self.raise_new(st, 'TypeError'))
                return results
            if tail is not None:
                t, f = self.fork(st, z3.Length(tail) == 0)
                if f is not None:
                    results.append(self.raise_new(f, 'TypeError'))
                if t is None:
                    return results
                st = t
        # keyword-only
        for p, dflt in zip(a.kwonlyargs, a.kw_defaults):
            if p.arg in kw:
                loc[p.arg] = kw.pop(p.arg)
            else:
                pending_default.append((p.arg, dflt))
        # names possibly supplied through the symbolic ** rest
        consumed = []
        for p, dflt in pending_default:
            if args.kwrest is not None:
                r = r_of(args.kwrest.term)
                key = strv(S(p))
                self.dict_key_facts(st, r, key)
                has = self.dict_has(st, r, key)
                t, f = self.fork(st, has)
                if t is not None and f is not None:
                    # both feasible: split the call on whether the mapping supplies this parameter
                    return self.bind_params(t, fnode, args, fi_desc) + self.bind_params(f, fnode, args, fi_desc)
                if t is not None:
                    st = t
                    loc[p] = SV(self.dict_get(st, r, key))
                    consumed.append(key)
                    continue
                st = f
            if dflt is None:
                results.append(self.raise_new(st, 'TypeError'))
                return results
            loc[p] = ('default', dflt)
        # **kwargs
        if a.kwarg is not None:
            if args.kwrest is None:
                loc[a.kwarg.arg] = KwDictV(kw, None)
            else:
                if consumed:
                    raise Unsupported('named parameter consumed from symbolic **kwargs and re-packed')
                loc[a.kwarg.arg] = KwDictV(kw, args.kwrest)
        else:
            if kw:
                results.append(self.raise_new(st, 'TypeError'))
                return results
            if args.kwrest is not None:
                # every key of the mapping must name a parameter: the consumed keys are distinct and present
                r = r_of(args.kwrest.term)
                t, f = self.fork(st, self.dict_len(st, r) == len(consumed))
                if f is not None:
                    results.append(self.raise_new(f, 'TypeError'))
                if t is None:
                    return results
                st = t
        results.append((st, loc))
        return results

    def run_body(self, st: St, fv, args: Args, node=None) -> List[Out]:
        fi = fv.fi
        fnode = fi.node
        outs = []
        for b in self.bind_params(st, fnode, args, fi.qualname):
            if isinstance(b, Out):
                outs.append(b)
                continue
            s2, loc = b
            selfv = None
            cls_ctx = fi.cls
            if fi.cls is not None and fi.kind in ('method', 'property', 'setter', 'class') and fnode.args.args:
                selfv = loc.get(fnode.args.args[0].arg)
            fr = Frame(fi, selfv, cls_ctx, None, fi.module)
            fr.env = fv.env
            fr.parent = s2.frame
            saved_frame, saved_loc = s2.frame, s2.loc
            s2.frame = fr
            s2.loc = {}
            # defaults are evaluated in the function's module scope
            for p, val in list(loc.items()):
                if isinstance(val, tuple) and val[0] == 'default':
                    o = self.ev(s2, val[1])
                    if len(o) != 1 or o[0].kind != 'ok':
                        raise Unsupported(f'default of {p} in {fi.qualname}')
                    loc[p] = o[0].val
                    s2 = o[0].st
            s2.loc = loc
            s2.depth += 1
            self.stats['paths'] += 0
            for o in self.ex_block(s2, fnode.body):
                o.st.frame = saved_frame
                o.st.loc = dict(saved_loc)
                o.st.depth -= 1
                if o.kind == 'ok':
                    outs.append(Out('ok', o.st, self.py_none()))
                elif o.kind == 'ret':
                    outs.append(Out('ok', o.st, o.val))
                elif o.kind == 'raise':
                    outs.append(o)
                else:
                    raise Unsupported(f'{o.kind} escaped function body {fi.qualname}')
        return outs

    def call_lambda(self, st, lv: LambdaV, args: Args, node=None):
        outs = []
        for b in self.bind_params(st, lv.node, args, '<lambda>'):
            if isinstance(b, Out):
                outs.append(b)
                continue
            s2, loc = b
            saved_frame, saved_loc = s2.frame, s2.loc
            fr = Frame(lv.frame.fi if lv.frame else None, lv.frame.selfv if lv.frame else None,
                       lv.frame.cls_ctx if lv.frame else None, None, lv.frame.module if lv.frame else None)
            fr.env = dict(lv.env)
            if lv.frame is not None and getattr(lv.frame, 'env', None):
                e = dict(lv.frame.env)
                e.update(fr.env)
                fr.env = e
            fr.parent = s2.frame
            s2.frame = fr
            s2.loc = loc
            for o in self.ev(s2, lv.node.body):
                o.st.frame = saved_frame
                o.st.loc = dict(saved_loc)
                outs.append(o)
        return outs

    # ------------------------------------------------------------------ construction
    def construct(self, st: St, ci, args: Args, node=None) -> List[Out]:
        if ci.external:
            return self.construct_external(st, ci, args, node)
        # metaclass __call__ (StateMachineMeta) is ordinary code
        meta_call = self.metaclass_call(ci)
        if meta_call is not None and not getattr(st, '_in_meta', False):
            a2 = Args([ClassV(ci)] + args.pos, args.tail, args.kw, args.kwrest)
            return self.call_function(st, FuncV(meta_call), a2, node)
        return self.construct_plain(st, ci, args, node)

    def metaclass_call(self, ci):
        for c in ci.mro:
            if c.metaclass:
                r = self.index.resolve_name(c.module, c.metaclass)
                if r in self.index.classes:
                    m = self.index.classes[r]
                    f = m.lookup('__call__')
                    if f is not None:
                        return f
        return None

    def construct_plain(self, st, ci, args, node=None):
        st = st.copy()
        obj = self.alloc(st, ci)
        self.init_class_defaults(st, obj, ci)
        if any(c.qualname == 'dict' for c in ci.mro):
            # a subclass of dict starts as an empty dictionary
            r0 = r_of(obj.term)
            st.DH = z3.Store(st.DH, r0, z3.K(Val, FALSE))
            st.DL = z3.Store(st.DL, r0, I(0))
        init = ci.lookup('__init__')
        if init is None:
            ext = [c for c in ci.mro if c.external and c.qualname != 'object']
            if ext:
                outs = self.external_init(st, obj, ext[0], args, node)
                return [Out('ok', o.st, obj) if o.kind == 'ok' else o for o in outs]
            if args.pos or args.kw:
                if any(c.qualname == 'BaseException' for c in ci.mro):
                    return self.ok(st, obj)
                return [self.raise_new(st, 'TypeError')]
            return self.ok(st, obj)
        a2 = Args([obj] + args.pos, args.tail, args.kw, args.kwrest)
        outs = self.call_function(st, FuncV(init), a2, node)
        return [Out('ok', o.st, obj) if o.kind == 'ok' else o for o in outs]

    def init_class_defaults(self, st, obj: SV, ci):
        """Class-level simple constants become the initial instance-dict view of a fresh object."""
        r = r_of(obj.term)
        for c in reversed(ci.mro):
            for name, expr in c.class_attrs.items():
                if isinstance(expr, ast.Constant) and (expr.value is None or isinstance(expr.value, (bool, int, str))):
                    self.hstore(st, r, name, self.ev_Constant(st, expr)[0].val.term)

    # ------------------------------------------------------------------ calling unknown values
    def call_value(self, st: St, fv: SV, args: Args, node=None) -> List[Out]:
        """Callee is a symbolic value: enumerate the known callables it may equal (model-guided), the remainder is
        a user call."""
        t = fv.term
        if (self.config.get('user_results_foreign') or self.config.get('foreign_shortcut')) and getattr(fv, 'origin', None) is not None:
            rc = fv.origin[0]
            if isinstance(rc, SV) and rc.cls is None and self.entails(
                    st, AND(is_ref(rc.term), z3.Select(st.CL, r_of(rc.term)) >= I(self.index.first_free_id)), 1500):
                # A-FOREIGN: a method of an object of a user-defined class is unknown code (not one of plumpy's functions)
                return self.user_call(st, fv, args, node)
        cur = st
        found = []
        LIMIT = 8
        while cur is not None and len(found) <= LIMIT:
            cand = self.identify_callable(cur, t)
            if cand is None:
                break
            cond, pv = cand
            yes, no = self.fork(cur, cond)
            if yes is not None:
                found.append((yes, pv))
            cur = no
        if len(found) > LIMIT:
            # the callee is (nearly) unconstrained: it is unknown code
            self.note('call of a value that may be any of many known callables is treated as a call into unknown code')
            return self.user_call(st, fv, args, node)
        outs = []
        if os.environ.get('PYVC_DEBUG_CALLVALUE'):
            print('CALLVALUE line', getattr(node, 'lineno', None), 'found', [repr(pv)[:60] for _, pv in found], 'rest feasible', cur is not None)
        for yes, pv in found:
            outs.extend(self.call(yes, pv, args, node))
        if cur is not None:
            outs.extend(self.user_call(cur, fv, args, node))
        return outs

    def identify_callable(self, st: St, t):
        """If under st.pc the callee term can equal a known callable, return (cond, V)."""
        s = z3.Solver()
        s.set('rlimit', 3000000)
        # candidates are only PROPOSED here (each is then forked with a real feasibility check): quantified facts are
        # abstracted so that the proposal query is quantifier-free and does not run into the resource limit
        for a in self.global_axioms + st.pc:
            s.add(smt.abstract_quantifiers(a))
        s.add(is_ref(t))
        # candidates: registry objects + classes + functions
        cands = []
        for (rt, pv) in st.objs:
            if isinstance(pv, (FuncV, LambdaV, BoundV, PartialV)):
                cands.append((r_of(t) == rt, pv))
        rid = r_of(t)
        lo, hi = 1, self.index.first_free_id
        s.push()
        s.add(rid >= lo, rid < hi)
        if s.check() == z3.sat:
            m = s.model()
            v = m.eval(rid, model_completion=True).as_long()
            s.pop()
            if v in self.index.class_by_id:
                return (rid == I(v), ClassV(self.index.class_by_id[v]))
            if v in self.index.func_by_id:
                return (rid == I(v), FuncV(self.index.func_by_id[v]))
        else:
            s.pop()
        for cond, pv in cands:
            s.push()
            s.add(cond)
            r = s.check()
            s.pop()
            if r == z3.sat:
                return (cond, pv)
        # bound method objects in the heap: class 'method' with __func__ a known function
        return None
