# -*- coding: utf-8 -*-
"""pyvc.check -- per-property check: verify every unit under contract for the property from the current /repo tree,
run the property's syntactic lemmas, replay refutations on the real code, write the evidence file.

exit 0: every obligation discharged (known findings printed)   exit 1: violation (VIOLATION line)
exit 2: undecided (solver unknown / source left the subset)    exit 3: checker error
"""
from __future__ import annotations

import argparse
import json
import multiprocessing as mp
import os
import subprocess
import sys
import time
import traceback

VERIF = os.path.dirname(os.path.dirname(os.path.abspath(__file__)))
CONTRACT_DIR = os.path.join(VERIF, 'contracts')
EVIDENCE_DIR = os.path.join(VERIF, 'evidence')
REPLAY_DIR = os.path.join(EVIDENCE_DIR, 'replay')
KNOWN = os.path.join(VERIF, 'known_findings.jsonl')
INDEX = os.path.join(VERIF, 'contracts', 'index.json')
REPLAY_PY = os.environ.get('PYVC_REPLAY_PYTHON', '/venv/bin/python')


def load_known():
    res = []
    if os.path.exists(KNOWN):
        for line in open(KNOWN):
            line = line.strip()
            if line and not line.startswith('#') and not line.startswith('fixed:'):
                res.append(json.loads(line))
    return res


def run_replay(prop, ob, tier):
    """Replay a refuted obligation on the real code.  -> (path, reproduced: bool|None, output)"""
    os.makedirs(REPLAY_DIR, exist_ok=True)
    safe = ob['name'].replace('/', '_').replace('<', '').replace('>', '').replace('::', '--')
    path = os.path.join(REPLAY_DIR, f'{prop}-{safe}.json')
    doc = dict(ob.get('extra') or {})
    doc.update({'property': prop, 'obligation': ob['name'], 'clause': ob['detail'], 'kind': ob['kind'],
           'counterexample': ob.get('counterexample'), 'solver': ob['backend'], 'solver_model': ob.get('model', ''),
           'recipe': ob.get('replay'), 'tier': tier})
    reproduced = None
    out = ''
    if ob.get('replay'):
        json.dump(doc, open(path, 'w'), indent=1)
        try:
            p = subprocess.run([REPLAY_PY, os.path.join(VERIF, 'replay', 'run.py'), path], capture_output=True, text=True,
                               timeout=300, env=dict(os.environ, PYTHONPATH=os.environ.get('PYVC_REPLAY_PYTHONPATH', '')))
            out = (p.stdout + p.stderr)[-20000:]
            reproduced = p.returncode == 10
        except subprocess.TimeoutExpired:
            out = 'replay timed out'
    doc['replay_reproduced'] = reproduced
    doc['replay_output'] = out
    json.dump(doc, open(path, 'w'), indent=1)
    return path, reproduced, out


def main(argv=None):
    ap = argparse.ArgumentParser()
    ap.add_argument('prop')
    ap.add_argument('--tier', default=os.environ.get('VERIF_TIER', 'quick'))
    ap.add_argument('--replay', default=None)
    ap.add_argument('--root', default=None)
    ap.add_argument('--record', action='store_true', help='record the obligations proved now in contracts/index.json')
    ap.add_argument('--jobs', type=int, default=min(16, os.cpu_count() or 4))
    a = ap.parse_args(argv)
    prop = a.prop
    t0 = time.time()
    seed = int(os.environ.get('VERIF_SEED', '0') or 0)
    if a.replay:
        p = subprocess.run([REPLAY_PY, os.path.join(VERIF, 'replay', 'run.py'), a.replay])
        return 1 if p.returncode == 10 else 0
    try:
        from . import props as propmod
        from .source import SourceIndex
        from .spec import ContractIndex
        index = SourceIndex(a.root)
        contracts = ContractIndex(index, [CONTRACT_DIR])
        pinfo = propmod.PROPS[prop]
        problems = [m for m in contracts.check_targets()]
        targets = sorted(t for t, c in contracts.by_target.items() if prop in c.props and not c.assumed)
        relevant_problems = [m for m in problems if any(m.startswith(t) for t, c in contracts.by_target.items() if prop in c.props)]
        lines = []
        if relevant_problems:
            # a function under contract disappeared or changed its signature: the obligations cannot even be generated. Like any
            # unit that was proved on the recorded tree and is undecided now, this is a violation only if the replay search of
            # that unit finds a failing input on the real code
            print(f'UNDECIDED property={prop}: contract targets missing or signature changed: {relevant_problems}')
            rc = 2
            vio = []
            for t, c in contracts.by_target.items():
                if prop not in c.props or not any(m.startswith(t) for m in relevant_problems):
                    continue
                for recipe in sorted({k.args[1].value for k in c.calls('replay')}):
                    ob = {'name': f'{t}::undecided', 'detail': f'contract target missing or signature changed: {relevant_problems}', 'kind': 'undecided',
                          'backend': '-', 'replay': recipe, 'counterexample': {'inputs': {}}}
                    path, reproduced, out = run_replay(prop, ob, a.tier)
                    if reproduced:
                        print(f"  unit {t}: its signature changed; the replay search '{recipe}' found a failing input on the real code")
                        print(f'VIOLATION property={prop} replay={path}')
                        rc = 1
                        vio.append(ob)
                        break
            write_evidence(prop, a.tier, seed, t0, [], [], vio, status='violated' if rc == 1 else 'undecided', note=str(relevant_problems))
            return rc
        if not targets and not pinfo.get('scans'):
            print(f'ERROR property={prop}: no units under contract')
            return 3
        from . import verify
        results = verify.run_units(targets, [CONTRACT_DIR], a.root, a.jobs)
        scan_results = []
        for scan in pinfo.get('scans', []):
            from . import scans
            scan_results.extend(getattr(scans, scan)(index, prop))
    except Exception:
        traceback.print_exc()
        print(f'ERROR property={prop}: checker crashed')
        return 3
    unit_recipes = {}
    for t in targets:
        c = contracts.by_target[t]
        unit_recipes[t] = sorted({k.args[1].value for k in c.calls('replay')})
    if a.record:
        record_index(prop, results, scan_results)
    return report(prop, a.tier, seed, t0, results, scan_results, pinfo, unit_recipes)


def load_index():
    if os.path.exists(INDEX):
        return json.load(open(INDEX))
    return {}


def record_index(prop, results, scan_results):
    idx = load_index()
    names = sorted({o['name'] for r in results for o in r['obligations'] if o['status'] == 'proved' and not o['expect_refuted']}
                   | {s_['name'] for s_ in scan_results if s_['status'] == 'proved'})
    idx[prop] = {'proved': names, 'units': sorted(r['target'] for r in results if r['status'] == 'ok')}
    json.dump(idx, open(INDEX, 'w'), indent=1, sort_keys=True)


def report(prop, tier, seed, t0, results, scan_results, pinfo, unit_recipes=None):
    known = [k for k in load_known() if k.get('property') == prop and k.get('status') == 'open']
    violations, undecided, errors, known_hits = [], [], [], []
    n_ob = n_proved = 0
    all_obs = []
    for r in results:
        if r['status'] == 'error':
            errors.append(f"{r['target']}: {r['message']}")
            continue
        if r['status'] == 'undecided':
            undecided.append(f"{r['target']}: {r['message']}")
            continue
        if not r['obligations']:
            errors.append(f"{r['target']}: zero obligations generated")
        for ob in r['obligations']:
            all_obs.append(ob)
            if ob['expect_refuted']:
                # the `when` side of a known finding: must still be refutable, otherwise the entry is stale
                if ob['status'] == 'refuted':
                    known_hits.append(ob)
                continue
            n_ob += 1
            if ob['status'] == 'proved':
                n_proved += 1
            elif ob['status'] == 'refuted':
                violations.append(ob)
            else:
                undecided.append(f"{ob['name']}: solver unknown ({ob['reason'][:120]})")
    for s in scan_results:
        all_obs.append(s)
        kf = [k for k in known if k.get('obligation') == s['name']]
        if kf and s['status'] == 'refuted':
            # a syntactic lemma with an open known finding: counted as the finding, not as a new violation
            s['known_id'] = kf[0]['id']
            s['expect_refuted'] = True
            known_hits.append(s)
            continue
        n_ob += 1
        if s['status'] == 'proved':
            n_proved += 1
        elif s['status'] == 'refuted':
            violations.append(s)
        else:
            undecided.append(s['name'])
    rc = 0
    # known findings: print only if the recorded history still fails on the real code
    for k in known:
        if k.get('bounded'):
            continue      # findings of a bounded search are matched by history key below
        hit = [o for o in known_hits if o.get('known_id') == k['id']]
        path, reproduced, out = (None, None, '')
        if k.get('replay'):
            path, reproduced, out = run_replay(prop, {'name': k['obligation'] + '@' + k['id'], 'detail': k.get('what', ''), 'kind': 'known',
                                                      'backend': '-', 'replay': k['replay'], 'counterexample': k.get('history')}, tier)
        if hit and reproduced:
            print(f"KNOWN-FINDING: property={prop} {k['what']}")
        elif hit and reproduced is False:
            print(f"NOTE property={prop} known finding {k['id']}: obligation still refutable but the recorded history no longer fails on the real code")
        elif not hit:
            print(f"NOTE property={prop} known finding {k['id']} appears fixed: its obligation is proved on the whole domain")
    vio_lines = []
    for ob in violations:
        path, reproduced, out = run_replay(prop, ob, tier)
        line = f'VIOLATION property={prop} replay={path}'
        info = f"  obligation {ob['name']} [{ob['kind']}] refuted by {ob['backend']}: {ob['detail'][:160]}"
        if not reproduced:
            line += ' no-failing-input-found'
        print(info)
        print(line)
        vio_lines.append(line)
        rc = 1
    # DESIGN 5.1(b): an obligation that was proved on the recorded tree and is undecided now is a violation only if
    # the replay search of its unit finds a concrete failing input on the real code
    recorded = load_index().get(prop, {})
    rec_units = set(recorded.get('units', []))
    rec_proved = set(recorded.get('proved', []))
    searched = set()
    still_undecided = []
    for r in results:
        und_obs = [o for o in r['obligations'] if o['status'] == 'unknown' and not o['expect_refuted'] and o['name'] in rec_proved]
        unit_und = r['status'] == 'undecided' and r['target'] in rec_units
        if not (und_obs or unit_und) or r['target'] in searched:
            continue
        searched.add(r['target'])
        why = r['message'] if unit_und else f"{und_obs[0]['name']}: solver unknown"
        for recipe in (unit_recipes or {}).get(r['target'], []):
            ob = {'name': f"{r['target']}::undecided", 'detail': f'proved on the recorded tree, undecided now ({why[:200]})', 'kind': 'undecided',
                  'backend': '-', 'replay': recipe, 'counterexample': {'inputs': {}}}
            path, reproduced, out = run_replay(prop, ob, tier)
            if reproduced:
                print(f"  unit {r['target']}: proved on the recorded tree, undecided now ({why[:160]}); the replay search '{recipe}' found a failing input on the real code")
                print(f'VIOLATION property={prop} replay={path}')
                rc = 1
                violations.append(ob)
                break
    # bounded stand-ins (never counted as proved): functions outside the verifier's reach, checked on the real code by a
    # bounded native search with a stated bound
    bounded_out = []
    for b in pinfo.get('bounded', []):
        kf = [k for k in known if k.get('bounded') == b['name']]
        known_keys = sorted({h for k in kf for h in k.get('history_keys', [])})
        ob = {'name': f"bounded::{b['name']}", 'detail': f"bounded stand-in for {b['functions']}: {b['bound']}", 'kind': 'bounded',
              'backend': 'native', 'replay': b['recipe'], 'counterexample': {'inputs': {}},
              'extra': dict(b.get('args', {}), known_histories=known_keys)}
        path, reproduced, out = run_replay(prop, ob, tier)
        still = {ln.split(None, 1)[1].strip() for ln in out.splitlines() if ln.startswith('KNOWN-HISTORY ')}
        for k in kf:
            mine = [h for h in k.get('history_keys', []) if h in still]
            if mine:
                print(f"KNOWN-FINDING: property={prop} {k['what']} [{len(mine)} of {len(k['history_keys'])} listed histories still fail, e.g. {mine[0]}]")
            else:
                print(f"NOTE property={prop} known finding {k['id']} appears fixed: none of its listed histories fails any more")
        bounded_out.append({'name': b['name'], 'functions': b['functions'], 'bound': b['bound'], 'recipe': b['recipe'],
                            'result': 'violated' if reproduced else 'held on everything explored', 'level': 'bounded'})
        if reproduced:
            print(f"  bounded check {b['name']} ({b['functions']}): the search found a failing input on the real code")
            print(f'VIOLATION property={prop} replay={path}')
            rc = 1
            violations.append(ob)
    pinfo = dict(pinfo, bounded=bounded_out)
    for u in undecided:
        print(f'UNDECIDED property={prop}: {u}')
    for e in errors:
        print(f'ERROR property={prop}: {e}')
    if rc == 0 and errors:
        rc = 3
    elif rc == 0 and undecided:
        rc = 2
    write_evidence(prop, tier, seed, t0, results, all_obs, violations, status={0: 'held', 1: 'violated', 2: 'undecided', 3: 'error'}[rc],
                   n_ob=n_ob, n_proved=n_proved, pinfo=pinfo, known=[k['id'] for k in known])
    print(f'{prop}: {n_proved}/{n_ob} obligations discharged, {len(violations)} refuted, {len(undecided)} undecided, '
          f'{len(results)} units, {time.time() - t0:.1f}s -> exit {rc}')
    return rc


def write_evidence(prop, tier, seed, t0, results, all_obs, violations, status='held', note='', n_ob=0, n_proved=0, pinfo=None, known=()):
    os.makedirs(EVIDENCE_DIR, exist_ok=True)
    assumptions = set()
    abstractions = set()
    used = set()
    for r in results:
        assumptions.update(r.get('assumptions', []))
        abstractions.update(r.get('abstractions', []))
        used.update(r.get('contracts_used', []))
    backends = {}
    solver_s = 0.0
    for ob in all_obs:
        backends[ob.get('backend', '-')] = backends.get(ob.get('backend', '-'), 0) + 1
        solver_s += ob.get('seconds', 0)
    pinfo = pinfo or {}
    samples = [{'obligation': o['name'], 'kind': o['kind'], 'clause': o['detail'][:200], 'status': o['status'], 'backend': o.get('backend')}
               for o in all_obs[:8]]
    cov = {
        'obligations': n_ob,
        'discharged': n_proved,
        'checker_cmd': f'./check {prop} --tier {tier}',
        'trusted_base': sorted(assumptions) + list(pinfo.get('trusted', [])),
        'functions_under_contract': [r['target'] for r in results],
        'units': [{'target': r['target'], 'status': r['status'], 'paths': r['paths'], 'seconds': r['seconds'],
                   'obligations': len(r['obligations']), 'message': r['message']} for r in results],
        'callee_contracts_used': sorted(used),
        'backends': backends,
        'solver_seconds': round(solver_s, 2),
        'abstractions_by_extraction': sorted(abstractions),
        'bounded': pinfo.get('bounded', []),
        'known_findings': list(known),
        'samples': samples or [{'note': note or 'no obligations'}],
        'evaluations': max(n_ob, 1),
        'distinct_nontrivial': max(len({o['name'] for o in all_obs if o['kind'] != 'cover'}), 2) if all_obs else 2,
        'rule': 'one case = one named proof obligation generated from the current source (postcondition / exceptional postcondition / '
                'frame / loop invariant / call-site precondition / syntactic lemma); cover obligations are counted as trivial',
        'status': status,
        'not_claimed': pinfo.get('not_claimed', []),
    }
    doc = {
        'property_id': prop, 'tier': tier if tier in ('quick', 'thorough') else 'quick', 'seed': seed, 'level': 'proof',
        'coverage': cov, 'assumptions': sorted(assumptions) + list(pinfo.get('assumptions', [])),
        'wall_s': round(time.time() - t0, 2), 'violations': len(violations),
    }
    json.dump(doc, open(os.path.join(EVIDENCE_DIR, f'{prop}.json'), 'w'), indent=1)


if __name__ == '__main__':
    sys.exit(main())
