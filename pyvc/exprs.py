# -*- coding: utf-8 -*-
"""pyvc.exprs -- expression evaluation (forking where Python's semantics fork)."""
from __future__ import annotations

import ast
from typing import List

import z3

from . import smt
from .engine import CONTAINER_CLASSES
from .smt import (AND, FALSE, I, NOT, OR, S, TRUE, Val, b_of, boolv, i_of, intv, is_bool, is_int, is_none, is_ref,
                  is_str, none, r_of, ref, s_of, strv)
from .values import (NamedTupleClsV, PropV, IterV, SV, Args, BoolTermV, BoundV, BuiltinV, ClassV, Frame, FuncV, LambdaV, ModuleV, Out, RawV,
                     SeqTermV, St, SuperV, TupleV, Unsupported, V)

EXTERNAL_MODULES = {'asyncio', 'kiwipy', 'copy', 'inspect', 'functools', 'sys', 'os', 'pickle', 'yaml', 'uuid',
                    'time', 'traceback', 'logging', 'warnings', 'importlib', 'fnmatch', 'errno', 'enum', 're',
                    'collections', 'contextlib', 'abc', 'json', 'types', 'typing', 'tblib', 'nest_asyncio', 'concurrent',
                    'aio_pika', 'contextvars', 'aiocontextvars'}

BUILTIN_FUNCS = {'len', 'isinstance', 'issubclass', 'callable', 'getattr', 'setattr', 'hasattr', 'str', 'int', 'bool',
                 'list', 'dict', 'tuple', 'set', 'type', 'any', 'all', 'dir', 'range', 'super', 'id', 'iter', 'next',
                 'open', 'print', 'repr', 'format', 'sorted', 'enumerate', 'zip', 'min', 'max', 'hash', 'delattr',
                 'frozenset', 'cast'}


class ExprMixin:
    # ------------------------------------------------------------------ sequencing helper
    def ev_seq(self, st: St, nodes: List[ast.expr], k):
        """Evaluate nodes left to right; for each normal outcome call k(st, [values]) -> list[Out]."""
        def rec(st, i, acc):
            if i == len(nodes):
                return k(st, acc)
            outs = []
            for o in self.ev(st, nodes[i]):
                if o.kind != 'ok':
                    outs.append(o)
                else:
                    outs.extend(rec(o.st, i + 1, acc + [o.val]))
            return outs

        return rec(st, 0, [])

    def bind(self, outs: List[Out], k):
        res = []
        for o in outs:
            if o.kind != 'ok':
                res.append(o)
            else:
                res.extend(k(o.st, o.val))
        return res

    def ok(self, st, v):
        return [Out('ok', st, v)]

    # ------------------------------------------------------------------ main dispatch
    def ev(self, st: St, node: ast.expr) -> List[Out]:
        m = getattr(self, 'ev_' + type(node).__name__, None)
        if m is None:
            raise Unsupported(f'expression {type(node).__name__}', node)
        return m(st, node)

    def ev_Constant(self, st, node):
        v = node.value
        if v is None:
            return self.ok(st, self.py_none())
        if isinstance(v, bool):
            return self.ok(st, self.py_bool(v))
        if isinstance(v, int):
            return self.ok(st, self.py_int(v))
        if isinstance(v, str):
            return self.ok(st, self.py_str(v))
        if v is Ellipsis:
            return self.ok(st, SV(ref(I(self.const_id('builtins.Ellipsis'))), 'ref'))
        raise Unsupported(f'constant {v!r}', node)

    def ev_Name(self, st, node):
        return self.ok(st, self.lookup_name(st, node.id, node))

    def lookup_name(self, st: St, name: str, node=None) -> V:
        if name in st.loc:
            return st.loc[name]
        fr = st.frame
        # closure environment
        if fr is not None and getattr(fr, 'env', None) is not None and name in fr.env:
            return fr.env[name]
        mod = fr.module if fr is not None else None
        if mod is not None:
            v = self.module_attr(st, mod, name, missing_ok=True)
            if v is not None:
                return v
        return self.builtin_name(name, node)

    def builtin_name(self, name, node=None):
        if name in ('True', 'False'):
            return self.py_bool(name == 'True')
        if name == 'None':
            return self.py_none()
        if name == 'NotImplemented':
            return SV(ref(I(self.NOTIMPL)), 'ref')
        if name in self.index.classes and self.index.classes[name].external:
            return ClassV(self.index.classes[name])
        if name in BUILTIN_FUNCS:
            return BuiltinV(name)
        raise Unsupported(f'unknown name {name}', node)

    def module_attr(self, st, mod, name, missing_ok=False):
        """Resolve module-level name `name` in ModuleInfo mod"""
        if name in mod.classes:
            return ClassV(mod.classes[name])
        if name in mod.funcs:
            return FuncV(mod.funcs[name])
        if name in mod.consts:
            return self.module_const(st, mod, name)
        if name in mod.imports:
            target = mod.imports[name]
            return self.resolve_qualified(st, target, missing_ok)
        if mod.name + '.' + name in self.index.modules:
            return ModuleV(mod.name + '.' + name)
        if missing_ok:
            return None
        raise Unsupported(f'module {mod.name} has no attribute {name}')

    def resolve_qualified(self, st, target: str, missing_ok=False):
        idx = self.index
        c = idx.canon(target)
        if c is not None:
            if c in idx.classes:
                return ClassV(idx.classes[c])
            if c in idx.funcs:
                return FuncV(idx.funcs[c])
            if c in idx.modules:
                return ModuleV(c)
        # module constant re-exported (e.g. plumpy.lang.NULL)
        if '.' in target:
            mn, attr = target.rsplit('.', 1)
            if mn in idx.modules:
                return self.module_attr(st, idx.modules[mn], attr, missing_ok)
        head = target.split('.')[0]
        if head in EXTERNAL_MODULES or target in EXTERNAL_MODULES:
            return self.external_name(target)
        if missing_ok:
            return None
        raise Unsupported(f'cannot resolve {target}')

    def external_name(self, target: str):
        """A name living in an external library: class (if modelled), module, or builtin function by dotted name"""
        from .source import EXTERNAL_ALIASES
        if target in EXTERNAL_ALIASES:
            return ClassV(self.index.classes[EXTERNAL_ALIASES[target]])
        if target in EXTERNAL_MODULES or target in ('concurrent.futures', 'asyncio.futures', 'os.path', 'collections.abc', 'yaml.loader',
                                                    'aio_pika.exceptions', 'yaml.representer'):
            return ModuleV(target)
        return BuiltinV(target)

    def module_const(self, st, mod, name):
        """Module-level constant: evaluated from its defining expression each time (pure literals only) or a
        distinguished constant object."""
        node = mod.consts[name]
        key = mod.name + '.' + name
        if isinstance(node, ast.Constant):
            return self.ev_Constant(st, node)[0].val
        if isinstance(node, ast.Tuple) and not node.elts:
            return TupleV([])
        if isinstance(node, (ast.Name, ast.Attribute)):
            r = self.index.resolve_name(mod, ast.unparse(node))
            if r is not None:
                v = self.resolve_qualified(st, r, missing_ok=True)
                if v is not None:
                    return v
            tgt = ast.unparse(node)
            head = tgt.split('.')[0]
            if head in mod.imports:
                return self.resolve_qualified(st, '.'.join([mod.imports[head]] + tgt.split('.')[1:]))
        if isinstance(node, ast.Call) and ast.unparse(node.func) in ('collections.namedtuple', 'namedtuple') and len(node.args) == 2:
            fields = ast.literal_eval(node.args[1])
            if isinstance(fields, str):
                fields = fields.replace(',', ' ').split()
            return NamedTupleClsV(node.args[0].value, fields)
        if isinstance(node, ast.Call):
            # module-level singleton instance, e.g. NULL = __NULL(), return_ = _Return(), ContextVar(...)
            fn = ast.unparse(node.func)
            r = self.index.resolve_name(mod, fn)
            if r is None and fn in mod.classes:
                r = mod.classes[fn].qualname
            cid = self.const_id('const:' + key)
            if r is not None and r in self.index.classes:
                ci = self.index.classes[r]
                self.const_class[cid] = ci
                return SV(ref(I(cid)), 'ref', ci, exact=True)
            return SV(ref(I(cid)), 'ref')
        cid = self.const_id('const:' + key)
        return SV(ref(I(cid)), 'ref')

    # ------------------------------------------------------------------ attribute access
    def ev_Attribute(self, st, node):
        def k(st2, base):
            outs = self.getattr_v(st2, base, node.attr, node)
            if isinstance(base, SV):
                for o in outs:
                    if o.kind == 'ok' and isinstance(o.val, SV) and o.val.cls is None and o.val.origin is None:
                        nv = SV(o.val.term, o.val.kind, o.val.cls, o.val.exact, o.val.tag)
                        nv.origin = (base, node.attr)
                        o.val = nv
            return outs

        return self.bind(self.ev(st, node.value), k)

    def enum_member(self, ci, name):
        cid = self.const_id(f'enum:{ci.qualname}.{name}')
        self.const_class[cid] = ci
        return SV(ref(I(cid)), 'ref', ci, exact=True)

    def class_attr_value(self, st, ci, name, node=None):
        """Value of class-level attribute `name` looked up through ci's MRO (as accessed on the class)."""
        if name == '_auto_persist' and any(c.qualname == 'plumpy.persistence.Savable' for c in ci.mro):
            return self.auto_persist_set(st, ci, node)
        f = ci.lookup(name)
        owner, expr = ci.lookup_class_attr(name)
        if f is not None and (owner is None or ci.mro.index(f.cls) <= ci.mro.index(owner)):
            if f.kind == 'static':
                return FuncV(f)
            if f.kind == 'class':
                return BoundV(FuncV(f), ClassV(ci))
            if f.kind == 'property':
                setter = ci.lookup_setter(name)
                return PropV(f, setter)
            return FuncV(f)
        if owner is not None:
            if self.cls('enum.Enum') in owner.mro and owner.qualname != 'enum.Enum':
                return self.enum_member(owner, name)
            return self.eval_class_const(st, owner, name, expr)
        if name == '__name__':
            return self.py_str(ci.name)
        if name == '__module__':
            return self.py_str(ci.module.name if ci.module else 'builtins')
        if name == '__class__':
            return ClassV(self.cls('type'))
        return None

    def auto_persist_set(self, st, ci, node=None):
        """Savable._auto_persist of a class of the class table, derived mechanically from the source on every run: the
        names given to the `auto_persist(...)` class decorators along the MRO (the decorator copies the inherited set and adds
        its names -- its own behaviour is checked by the bounded stand-in `auto_persist_member_sets`).  Classes that declare
        members in another way (a direct `_auto_persist = ...` or `cls.auto_persist(...)` in the class body) are refused."""
        names = []
        seen_dec = False
        for c in ci.mro:
            if c.external:
                continue
            if c.qualname != 'plumpy.persistence.Savable' and '_auto_persist' in c.class_attrs:
                raise Unsupported(f'{c.qualname} assigns _auto_persist directly', node)
            for d in c.decorators:
                if isinstance(d, ast.Call) and ast.unparse(d.func).endswith('auto_persist'):
                    seen_dec = True
                    for a in d.args:
                        if not (isinstance(a, ast.Constant) and isinstance(a.value, str)):
                            raise Unsupported('auto_persist(...) with a non-literal member name', node)
                        if a.value not in names:
                            names.append(a.value)
        self.assumptions_used.add('Savable._auto_persist of a class is the set of names given to its auto_persist(...) decorators along '
                                  'the MRO (derived from the source; the decorator itself is covered by a bounded stand-in)')
        if not seen_dec:
            return self.py_none()
        setnode = ast.Set(elts=[ast.Constant(value=n) for n in sorted(names)])
        ast.fix_missing_locations(setnode)
        outs = self.ev(st, setnode)
        o = outs[0]
        if o.st is not st:
            for f_ in ('H', 'DH', 'DV', 'DL', 'LS', 'CL', 'A', 'pc', 'objs', 'keys', 'ghost'):
                setattr(st, f_, getattr(o.st, f_))
        if st.ghost.get('OWN') is not None:
            # A-PRIV: nobody but the class machinery writes a class's member set
            st.ghost['OWN'] = z3.Store(st.ghost['OWN'], r_of(o.val.term), TRUE)
        return o.val

    def eval_class_const(self, st, owner, name, expr):
        fr = Frame(None, None, owner, None, owner.module)
        saved = (st.frame, st.loc)
        st.frame, st.loc = fr, {}
        try:
            outs = self.ev(st, expr)
        finally:
            st.frame, st.loc = saved
        if len(outs) != 1 or outs[0].kind != 'ok':
            raise Unsupported(f'class constant {owner.qualname}.{name} does not evaluate simply')
        if outs[0].st is not st:
            # allocation happened (e.g. a set display): keep the new heap
            for f in ('H', 'DH', 'DV', 'DL', 'LS', 'CL', 'A', 'pc', 'objs', 'keys'):
                setattr(st, f, getattr(outs[0].st, f))
        return outs[0].val

    def getattr_v(self, st: St, base: V, name: str, node=None) -> List[Out]:
        if type(base).__name__ == 'KwDictV':
            st = st.copy()
            base = self.materialise_kwdict(st, base)
        if isinstance(base, ModuleV):
            if base.name in self.index.modules:
                return self.ok(st, self.module_attr(st, self.index.modules[base.name], name))
            return self.ok(st, self.external_name(base.name + '.' + name))
        if isinstance(base, ClassV):
            v = self.class_attr_value(st, base.ci, name, node)
            if v is None and name == '__new__' and not base.ci.external:
                return self.ok(st, BuiltinV('object.__new__'))
            if v is None:
                if base.ci.external:
                    return self.ok(st, BuiltinV(base.ci.qualname + '.' + name))
                return [self.raise_new(st, 'AttributeError')]
            return self.ok(st, v)
        if isinstance(base, SuperV):
            return self.getattr_super(st, base, name, node)
        if isinstance(base, TupleV):
            return self.ok(st, BoundV(BuiltinV('tuple.' + name), base))
        if isinstance(base, (FuncV, LambdaV)):
            if name == '__name__':
                return self.ok(st, self.py_str(base.fi.name if isinstance(base, FuncV) else '<lambda>'))
            if name == '__doc__':
                return self.ok(st, SV(smt.fresh('doc', Val)))
            if name == '__module__' and isinstance(base, FuncV):
                return self.ok(st, self.py_str(base.fi.module.name))
            raise Unsupported(f'attribute {name} of function', node)
        if isinstance(base, BoundV):
            if name == '__self__':
                return self.ok(st, base.selfv)
            if name == '__name__' and isinstance(base.fn, FuncV):
                return self.ok(st, self.py_str(base.fn.fi.name))
            if name == '__func__':
                return self.ok(st, base.fn)
            if name == '__name__' and isinstance(base.fn, BuiltinV):
                return self.ok(st, self.py_str(base.fn.name.rsplit('.', 1)[-1]))
            raise Unsupported(f'attribute {name} of bound method', node)
        if isinstance(base, BuiltinV):
            return self.ok(st, BuiltinV(base.name + '.' + name))
        if isinstance(base, PropV):
            if name == 'fset':
                return self.ok(st, FuncV(base.setter) if base.setter is not None else self.py_none())
            if name == 'fget':
                return self.ok(st, FuncV(base.getter))
            raise Unsupported(f'attribute {name} of property object', node)
        if isinstance(base, SV):
            return self.getattr_sv(st, base, name, node)
        raise Unsupported(f'getattr on {base!r}', node)

    def getattr_super(self, st, base: SuperV, name, node=None):
        def one(st, f):
            if f is None:
                # external base (object.__init__, asyncio.Future.__init__, Exception.__init__ ...)
                return self.ok(st, BoundV(BuiltinV('super.' + name), base.selfv))
            if f.kind == 'class':
                return self.ok(st, BoundV(FuncV(f), base.clsv))
            if f.kind == 'static':
                return self.ok(st, FuncV(f))
            if f.kind == 'property':
                if getattr(base, 'is_class', False):
                    # super(C, cls).prop is the property object itself
                    setter = None
                    seen = False
                    for k in base.selfv_cls.mro:
                        if seen and name in k.setters:
                            setter = k.setters[name]
                            break
                        if seen and name in k.methods:
                            break
                        if k is base.after:
                            seen = True
                    return self.ok(st, PropV(f, setter))
                return self.call_function(st, FuncV(f), Args([base.selfv]))
            return self.ok(st, BoundV(FuncV(f), base.selfv))

        if getattr(base, 'is_class', False):
            return one(st, base.selfv_cls.lookup_after(base.after, name))
        groups = base.selfv_cls.groups(name)
        if len(groups) == 1:
            (f, cs), = groups.items()
            return one(st, f)
        outs = []
        clt = z3.Select(st.CL, r_of(base.selfv.term))
        for f, cs in groups.items():
            s2, _ = self.fork(st, OR(*[clt == I(c.id) for c in cs]))
            if s2 is not None:
                outs.extend(one(s2, f))
        return outs

    def candidate_classes(self, st: St, v: SV):
        """Classes the dynamic class of ref v may be, as (ClassInfo list) restricted by hints."""
        if v.cls is not None and v.exact:
            return [v.cls]
        if v.cls is not None:
            return self.index.subclasses(v.cls)
        return list(self.index.classes.values())

    def getattr_sv(self, st: St, v: SV, name: str, node=None) -> List[Out]:
        outs = []
        if v.cls is None and v.kind in (None, 'ref') and name in ('items', 'keys', 'values', 'get', 'setdefault', 'pop', 'update',
                                                                   'append', 'extend', 'add', 'discard', 'copy', 'clear', 'remove'):
            v = self.probe_class(st, v)
        if v.cls is None and v.kind in (None, 'ref') and not name.startswith('__'):
            v = self.probe_instance(st, v, name)
        t = v.term
        # non-ref receivers
        if v.kind is None:
            tr, fl = self.fork(st, is_ref(t))
        elif v.kind == 'ref':
            tr, fl = st, None
        else:
            tr, fl = None, st
        if fl is not None:
            outs.extend(self.getattr_prim(fl, v, name, node))
        if tr is None:
            return outs
        st = tr
        v = SV(t, 'ref', v.cls, v.exact)
        r = r_of(t)
        # constant singleton objects know their class
        if z3.is_app(t) and z3.is_int_value(r := smt.simp(r_of(t))):
            cid = r.as_long()
            if cid in self.const_class:
                v = SV(t, 'ref', self.const_class[cid], True)
            elif cid in self.index.class_by_id:
                return outs + self.getattr_v(st, ClassV(self.index.class_by_id[cid]), name, node)
        r = r_of(t)
        # abstract-method contracts (behavioural subtyping): the hinted class's contract stands for every subclass
        if v.cls is not None and not v.exact and self.contracts is not None:
            f0 = v.cls.lookup(name)
            if f0 is not None:
                c0 = self.contracts.by_target.get(f0.qualname)
                if c0 is not None and c0.opts.get('dispatch') == 'static':
                    self.assumptions_used.add(f'behavioural subtyping: every override of {f0.qualname} obeys its contract')
                    return outs + self.ok(st, BoundV(FuncV(f0), v))
        if name == __import__('os').environ.get('PYVC_DBG_ATTR'):
            print('DBG attr', name, v, 'cls', v.cls, 'exact', v.exact, 'kind', v.kind)
        if name == 'recreate_from' and __import__('os').environ.get('PYVC_DBG_FOREIGN'):
            print('DBG foreign', v, 'cls', v.cls, 'cfg', self.config.get('user_results_foreign'),
                  'ent', self.entails(st, z3.Select(st.CL, r) >= I(self.index.first_free_id), 3000),
                  'isref>=', self.entails(st, r >= I(self.index.first_free_id), 3000))
        if v.cls is None and (self.config.get('user_results_foreign') or self.config.get('foreign_shortcut')) \
                and self.entails(st, z3.Select(st.CL, r) >= I(self.index.first_free_id), 1500):
            return outs + self.getattr_resolved(st, v, name, ('heap', None), node)
        cands = self.candidate_classes(st, v)
        # group candidates by how `name` resolves
        groups = {}
        for c in cands:
            res = self.resolve_inst_attr(c, name)
            if res == ('absent',) and v.cls is None:
                res = ('heap', None)
            groups.setdefault(res, []).append(c)
        if v.cls is None and ('heap', None) in groups and len(groups) > 1:
            self.assumptions_used.add('attribute reads on objects of statically unknown class: AttributeError is not modelled (the attribute is read from the heap)')
        if len(groups) == 1:
            (res, cs), = groups.items()
            return outs + self.getattr_resolved(st, v, name, res, node)
        # several resolutions: split on the dynamic class
        clt = z3.Select(st.CL, r)
        rest = st
        for res, cs in groups.items():
            cond = OR(*[clt == I(c.id) for c in cs])
            if len(cs) > 40:
                # the big "plain heap read" group: take it as the complement
                continue
            if self.feasible(st, cond):
                s2 = st.copy()
                s2.assume(cond)
                narrowed = SV(t, 'ref', cs[0] if len(cs) == 1 else v.cls, len(cs) == 1)
                outs.extend(self.getattr_resolved(s2, narrowed, name, res, node))
        big = [(res, cs) for res, cs in groups.items() if len(cs) > 40]
        if big:
            (res, cs), = big if len(big) == 1 else (big[0],)
            if len(big) > 1:
                raise Unsupported(f'attribute {name}: too many resolution groups', node)
            small_ids = [c.id for rs, cc in groups.items() if len(cc) <= 40 for c in cc]
            cond = AND(*[clt != I(i) for i in small_ids])
            if self.feasible(st, cond):
                s2 = st.copy()
                s2.assume(cond)
                outs.extend(self.getattr_resolved(s2, v, name, res, node))
        return outs

    def resolve_inst_attr(self, c, name):
        """How instance attribute `name` resolves for dynamic class c: ('prop', fi) | ('meth', fi) | ('heap', default
        expr owner or None) | ('absent',)"""
        f = c.lookup(name)
        owner, expr = c.lookup_class_attr(name)
        # methods of external/builtin bases that we model (builtin containers, futures via lib contracts)
        for k in c.mro:
            if name in k.methods or name in k.class_attrs:
                break
            if k.external and k.qualname in ('collections.abc.Mapping', 'collections.abc.MutableMapping') \
                    and name in ('items', 'keys', 'values', 'get', '__contains__') and self.mapping_delegate(c) is not None:
                return ('bmeth', 'mapping.' + name)
            if k.external:
                bname = ('set' if k.qualname == 'frozenset' else k.qualname) + '.' + name
                if self.lib_contract(bname) is not None or hasattr(self, 'bm_' + bname.replace('.', '_')):
                    return ('bmeth', bname)
        if f is not None and (owner is None or c.mro.index(f.cls) <= c.mro.index(owner)):
            if f.kind == 'property':
                return ('prop', f)
            if f.kind == 'static':
                return ('static', f)
            if f.kind == 'class':
                return ('classm', f)
            return ('meth', f)
        if owner is not None:
            if self.cls('enum.Enum') in c.mro:
                return ('enumattr', owner)
            if not any(name in k.inst_attrs for k in c.mro):
                # a class-level constant that no method of the hierarchy ever assigns through an instance
                return ('classconst', owner)
            return ('heapdef', owner)
        if name in ('__class__', '__dict__', '__name__', '__self__', '__func__', '__wrapped__', '__module__', '__traceback__'):
            return ('heap', None)
        if c.external or any(name in k.inst_attrs for k in c.mro) or any(k.external and k.qualname not in ('object',) for k in c.mro):
            return ('heap', None)
        if c.lookup('__getattr__') is not None:
            return ('dyn', c.lookup('__getattr__'))
        return ('absent',)

    def getattr_resolved(self, st, v: SV, name, res, node):
        r = r_of(v.term)
        kind = res[0]
        if kind == 'prop':
            return self.call_function(st, FuncV(res[1]), Args([v]))
        if kind == 'meth':
            return self.ok(st, BoundV(FuncV(res[1]), v))
        if kind == 'bmeth':
            return self.ok(st, BoundV(BuiltinV(res[1]), v))
        if kind == 'static':
            return self.ok(st, FuncV(res[1]))
        if kind == 'classm':
            if v.cls is not None and not v.exact:
                # bind the classmethod to the concrete dynamic class: case split over the (few) candidate classes
                cands = [c for c in self.index.subclasses(v.cls) if c.lookup(name) is res[1]]
                if len(cands) <= 12:
                    outs = []
                    clt = z3.Select(st.CL, r_of(v.term))
                    for c in cands:
                        s2, _ = self.fork(st, clt == I(c.id))
                        if s2 is not None:
                            outs.append(Out('ok', s2, BoundV(FuncV(res[1]), ClassV(c))))
                    return outs
            return self.ok(st, BoundV(FuncV(res[1]), self.class_of_value(st, v)))
        if kind == 'enumattr':
            raise Unsupported(f'enum attribute {name}', node)
        if kind == 'classconst':
            if name == '_auto_persist':
                if v.cls is None or not v.exact:
                    raise Unsupported('self._auto_persist on a receiver whose class is not known exactly', node)
                st = st.copy()
                return self.ok(st, self.class_attr_value(st, v.cls, name, node))
            return self.ok(st, self.class_attr_value(st, res[1], name, node))
        if kind in ('heap', 'heapdef'):
            if name == '__class__':
                return self.ok(st, self.class_of_value(st, v))
            if name == '__dict__':
                return self.ok(st, self.dunder_dict(st, v))
            val = self.hload(st, r, name)
            sv = self.typed_read(st, v, name, val)
            return self.ok(st, sv)
        if kind == 'dyn':
            return self.call_function(st, FuncV(res[1]), Args([v, self.py_str(name)]))
        if kind == 'absent':
            return [self.raise_new(st, 'AttributeError')]
        raise Unsupported(f'attr resolution {res}', node)

    def dunder_dict(self, st, v):
        raise Unsupported('__dict__ access')

    def class_of_value(self, st, v: V):
        if isinstance(v, SV):
            if v.cls is not None and v.exact:
                return ClassV(v.cls)
            if v.kind in ('none', 'bool', 'int', 'str'):
                return ClassV(self.cls({'none': 'NoneType'}.get(v.kind, v.kind)))
            t = z3.Select(st.CL, r_of(v.term))
            return SV(ref(t), 'ref', self.cls('type'))
        if isinstance(v, TupleV):
            return ClassV(self.cls('tuple'))
        if isinstance(v, ClassV):
            return ClassV(self.cls('type'))
        if isinstance(v, (FuncV, LambdaV)):
            return ClassV(self.cls('function'))
        if isinstance(v, BoundV):
            return ClassV(self.cls('method'))
        raise Unsupported(f'type() of {v!r}')

    def typed_read(self, st: St, owner: SV, name: str, val) -> SV:
        """Wrap a heap read as SV; add the `older` fact and any declared-type fact (assumption, recorded)."""
        st.assume(self.older(st, val))
        hint = None
        if owner.cls is not None:
            hint = self.declared_attr_type(owner.cls, name)
        sv = SV(val)
        if hint is not None:
            kinds, ci, optional = hint
            fact = self.type_fact(st, val, kinds, ci, optional)
            if fact is not None:
                st.assume(fact)
                self.assumptions_used.add(f'declared type of {owner.cls.name}.{name} assumed: {self.hint_str(hint)}')
            if ci is not None and not optional and not kinds:
                sv = SV(val, 'ref', ci)
            elif ci is None and len(kinds) == 1 and not optional:
                sv = SV(val, kinds[0])
            elif ci is not None:
                sv = SV(val, None, ci)
            if ci is not None:
                self.assume_class_invariants(st, sv)
        return sv

    def hint_str(self, hint):
        kinds, ci, optional = hint
        return ('Optional ' if optional else '') + '/'.join(list(kinds) + ([ci.name] if ci else []))

    def type_fact(self, st, val, kinds, ci, optional):
        alts = []
        if optional:
            alts.append(is_none(val))
        for k in kinds:
            alts.append({'bool': is_bool(val), 'int': OR(is_int(val), is_bool(val)), 'str': is_str(val), 'none': is_none(val)}[k])
        if ci is not None:
            alts.append(AND(is_ref(val), self.is_subclass_term(z3.Select(st.CL, r_of(val)), ci)))
        if not alts:
            return None
        return OR(*alts)

    def declared_attr_type(self, ci, name):
        """(prim kinds, ClassInfo|None, optional) from contract type table; None if unknown"""
        tt = self.config.get('attr_types', {})
        for c in ci.mro:
            key = c.qualname + '.' + name
            if key in tt:
                return tt[key]
        return None

    def getattr_prim(self, st, v: SV, name, node):
        """attribute access on None/bool/int/str values"""
        t = v.term
        outs = []
        if v.kind == 'str' or (v.kind is None):
            ts, fs = self.fork(st, is_str(t)) if v.kind is None else (st, None)
            if ts is not None:
                if hasattr(self, 'bm_str_' + name) or name in ('__class__',):
                    outs.append(Out('ok', ts, BoundV(BuiltinV('str.' + name), SV(t, 'str'))))
                else:
                    outs.append(self.raise_new(ts, 'AttributeError'))
            st = fs
        if st is not None:
            if name == '__class__':
                outs.extend(self.ok(st, self.class_of_value(st, v)))
            elif name == '__bool__' and v.kind in ('bool', 'int'):
                outs.append(Out('ok', st, BoundV(BuiltinV('prim.__bool__'), v)))
            else:
                outs.append(self.raise_new(st, 'AttributeError'))
        return outs

    # ------------------------------------------------------------------ operators
    def ev_BoolOp(self, st, node):
        is_and = isinstance(node.op, ast.And)

        def rec(st, i):
            if i == len(node.values) - 1:
                return self.ev(st, node.values[i])
            res = []
            for o in self.ev(st, node.values[i]):
                if o.kind != 'ok':
                    res.append(o)
                    continue
                for (s2, truth) in self.ev_truth(o.st, o.val):
                    if isinstance(truth, Out):
                        res.append(truth)
                        continue
                    tt, ff = self.fork(s2, truth)
                    cont, stop = (tt, ff) if is_and else (ff, tt)
                    if stop is not None:
                        res.append(Out('ok', stop, o.val))
                    if cont is not None:
                        res.extend(rec(cont, i + 1))
            return res

        # pure fast path: all operands simple names/constants/compare of such -> no fork, build If-term
        if all(self.is_pure_simple(v) for v in node.values):
            vals = []
            cur = st
            for vn in node.values:
                o = self.ev(cur, vn)
                if len(o) != 1 or o[0].kind != 'ok':
                    return rec(st, 0)
                cur = o[0].st
                vals.append(o[0].val)
            try:
                truths = [self.truthy(cur, v) for v in vals]
            except Unsupported:
                return rec(st, 0)
            if all(isinstance(v, SV) and v.kind == 'bool' for v in vals):
                t = AND(*truths) if is_and else OR(*truths)
                return self.ok(cur, SV(boolv(t), 'bool'))
        return rec(st, 0)

    def is_pure_simple(self, n):
        if isinstance(n, (ast.Name, ast.Constant)):
            return True
        if isinstance(n, ast.UnaryOp) and isinstance(n.op, ast.Not):
            return self.is_pure_simple(n.operand)
        if isinstance(n, ast.Compare) and len(n.ops) == 1 and isinstance(n.ops[0], (ast.Is, ast.IsNot)):
            return self.is_pure_simple(n.left) and self.is_pure_simple(n.comparators[0])
        return False

    def ev_truth(self, st: St, v: V):
        """-> list of (st, z3 Bool) (or (st, Out) for an exceptional outcome).  Calls __bool__/__len__ of table classes."""
        if isinstance(v, SV) and v.kind in (None, 'ref') and not (v.cls is not None and v.cls.qualname in CONTAINER_CLASSES):
            cands = self.candidate_classes(st, v) if v.cls is not None else []
            special = [c for c in cands if not c.external and (c.lookup('__bool__') or c.lookup('__len__'))]
            if special:
                res = []
                t = v.term
                isr = is_ref(t)
                clt = z3.Select(st.CL, r_of(t))
                cond = AND(isr, OR(*[clt == I(c.id) for c in special]))
                ts, fs = self.fork(st, cond)
                if ts is not None:
                    # dispatch on the method
                    groups = {}
                    for c in special:
                        f = c.lookup('__bool__') or c.lookup('__len__')
                        groups.setdefault(f, []).append(c)
                    for f, cs in groups.items():
                        s2, _ = self.fork(ts, OR(*[clt == I(c.id) for c in cs]))
                        if s2 is None:
                            continue
                        for o in self.call_function(s2, FuncV(f), Args([SV(t, 'ref', cs[0] if len(cs) == 1 else v.cls)])):
                            if o.kind != 'ok':
                                res.append((o.st, o))
                            else:
                                res.append((o.st, self.truthy(o.st, o.val)))
                if fs is not None:
                    res.append((fs, self.truthy(fs, SV(t, v.kind, None))))
                return res
        return [(st, self.truthy(st, v))]

    def ev_UnaryOp(self, st, node):
        if isinstance(node.op, ast.Not):
            res = []
            for o in self.ev(st, node.operand):
                if o.kind != 'ok':
                    res.append(o)
                    continue
                for (s2, truth) in self.ev_truth(o.st, o.val):
                    if isinstance(truth, Out):
                        res.append(truth)
                    else:
                        res.append(Out('ok', s2, SV(boolv(smt.simp(NOT(truth))), 'bool')))
            return res
        if isinstance(node.op, ast.USub):
            return self.bind(self.ev(st, node.operand), lambda s2, v: self.ok(s2, SV(intv(-self.as_int(s2, v)), 'int')))
        raise Unsupported('unary op', node)

    def as_int(self, st, v):
        if isinstance(v, SV):
            if v.kind == 'int':
                return smt.simp(i_of(v.term))
            if v.kind == 'bool':
                return z3.If(b_of(v.term), I(1), I(0))
            st.assume(OR(is_int(v.term), is_bool(v.term)))
            self.assumptions_used.add('operand of integer arithmetic assumed int')
            return z3.If(is_bool(v.term), z3.If(b_of(v.term), I(1), I(0)), i_of(v.term))
        if isinstance(v, RawV) and v.term.sort() == smt.Int:
            return v.term
        raise Unsupported(f'as_int {v!r}')

    def as_str(self, st, v):
        if isinstance(v, SV):
            if v.kind == 'str':
                return smt.simp(s_of(v.term))
            return s_of(v.term)
        if isinstance(v, RawV) and v.term.sort() == smt.Str:
            return v.term
        raise Unsupported(f'as_str {v!r}')

    def ev_BinOp(self, st, node):
        def k(st2, vals):
            a, b = vals
            return self.binop(st2, node.op, a, b, node)

        return self.ev_seq(st, [node.left, node.right], k)

    def binop(self, st, op, a, b, node=None):
        if isinstance(op, (ast.Add, ast.Sub, ast.Mult)):
            if isinstance(a, TupleV) and isinstance(b, TupleV) and isinstance(op, ast.Add):
                return self.ok(st, TupleV(a.items + b.items))
            if isinstance(op, ast.Add) and (isinstance(a, TupleV) or isinstance(b, TupleV)):
                sa, sb = self.seq_view(st, a), self.seq_view(st, b)
                o = self.alloc(st, self.cls('tuple'))
                st.LS = z3.Store(st.LS, r_of(o.term), z3.Concat(sa, sb))
                return self.ok(st, o)
            ka = a.kind if isinstance(a, SV) else None
            kb = b.kind if isinstance(b, SV) else None
            if ka == 'str' and kb == 'str' and isinstance(op, ast.Add):
                return self.ok(st, SV(strv(z3.Concat(self.as_str(st, a), self.as_str(st, b))), 'str'))
            if ka in ('int', 'bool') and kb in ('int', 'bool'):
                x, y = self.as_int(st, a), self.as_int(st, b)
                r = x + y if isinstance(op, ast.Add) else (x - y if isinstance(op, ast.Sub) else x * y)
                return self.ok(st, SV(intv(r), 'int'))
            if isinstance(a, SV) and isinstance(b, SV) and isinstance(op, ast.Add):
                # dynamic: str+str, int+int, list+list/tuple+tuple; else TypeError
                outs = []
                ta, tb = a.term, b.term
                s1, rest = self.fork(st, AND(is_str(ta), is_str(tb)))
                if s1 is not None:
                    outs.append(Out('ok', s1, SV(strv(z3.Concat(s_of(ta), s_of(tb))), 'str')))
                if rest is not None:
                    s2, rest2 = self.fork(rest, AND(OR(is_int(ta), is_bool(ta)), OR(is_int(tb), is_bool(tb))))
                    if s2 is not None:
                        outs.append(Out('ok', s2, SV(intv(self.as_int(s2, SV(ta)) + self.as_int(s2, SV(tb))), 'int')))
                    if rest2 is not None:
                        tupid, listid = self.cls('tuple').id, self.cls('list').id
                        both = lambda cid: AND(is_ref(ta), is_ref(tb), z3.Select(rest2.CL, r_of(ta)) == I(cid), z3.Select(rest2.CL, r_of(tb)) == I(cid))
                        s3, rest3 = self.fork(rest2, both(tupid))
                        if s3 is not None:
                            o = self.alloc(s3, self.cls('tuple'))
                            s3.LS = z3.Store(s3.LS, r_of(o.term), z3.Concat(self.list_seq(s3, r_of(ta)), self.list_seq(s3, r_of(tb))))
                            outs.append(Out('ok', s3, o))
                        if rest3 is not None:
                            s4, rest4 = self.fork(rest3, both(listid))
                            if s4 is not None:
                                o = self.new_list(s4, z3.Concat(self.list_seq(s4, r_of(ta)), self.list_seq(s4, r_of(tb))))
                                outs.append(Out('ok', s4, o))
                            if rest4 is not None:
                                self.note('`+` on operands that are not both str/int/tuple/list raises TypeError (user __add__ not modelled)')
                                outs.append(self.raise_new(rest4, 'TypeError'))
                return outs
        raise Unsupported(f'binop {type(op).__name__} on {a!r},{b!r}', node)

    def seq_view(self, st, v: V):
        """z3 Seq(Val) of a tuple/list value"""
        if isinstance(v, TupleV):
            return self.seq_of_terms([self.to_term(st, x) for x in v.items])
        if isinstance(v, SeqTermV):
            return v.term
        if isinstance(v, SV):
            return self.list_seq(st, r_of(v.term))
        raise Unsupported(f'seq_view {v!r}')

    def ev_Compare(self, st, node):
        if len(node.ops) != 1:
            # a < b < c : desugar
            raise Unsupported('chained comparison', node)
        op = node.ops[0]

        def k(st2, vals):
            return self.compare(st2, op, vals[0], vals[1], node)

        return self.ev_seq(st, [node.left, node.comparators[0]], k)

    def identical(self, st, a: V, b: V):
        """z3 Bool for `a is b`"""
        if isinstance(a, SV) or isinstance(b, SV) or isinstance(a, TupleV) or isinstance(b, TupleV):
            if isinstance(a, TupleV) and a.items and not isinstance(b, TupleV):
                return FALSE if not isinstance(b, SV) else FALSE
            if isinstance(b, TupleV) and b.items and not isinstance(a, TupleV):
                return FALSE
            if isinstance(a, TupleV) and isinstance(b, TupleV):
                if not a.items and not b.items:
                    return TRUE
                return z3.BoolVal(a is b)
            return self.to_term(st, a) == self.to_term(st, b)
        if isinstance(a, ClassV) and isinstance(b, ClassV):
            return z3.BoolVal(a.ci is b.ci)
        if isinstance(a, FuncV) and isinstance(b, FuncV):
            return z3.BoolVal(a.fi is b.fi and a.env is b.env)
        if isinstance(a, BoundV) and isinstance(b, BoundV):
            return z3.BoolVal(a is b)
        if type(a) is not type(b):
            return FALSE
        return z3.BoolVal(a is b)

    def compare(self, st, op, a, b, node=None):
        if isinstance(op, (ast.Is, ast.IsNot)):
            t = self.identical(st, a, b)
            if isinstance(op, ast.IsNot):
                t = NOT(t)
            return self.ok(st, SV(boolv(smt.simp(t)), 'bool'))
        if isinstance(op, (ast.Eq, ast.NotEq)):
            outs = self.py_equals(st, a, b, node)
            if isinstance(op, ast.NotEq):
                outs = [Out('ok', o.st, SV(boolv(smt.simp(NOT(self.truthy(o.st, o.val)))), 'bool')) if o.kind == 'ok' else o for o in outs]
            return outs
        if isinstance(op, (ast.Lt, ast.LtE, ast.Gt, ast.GtE)):
            x, y = self.as_int(st, a), self.as_int(st, b)
            t = {ast.Lt: x < y, ast.LtE: x <= y, ast.Gt: x > y, ast.GtE: x >= y}[type(op)]
            return self.ok(st, SV(boolv(t), 'bool'))
        if isinstance(op, (ast.In, ast.NotIn)):
            outs = self.contains(st, b, a, node)
            if isinstance(op, ast.NotIn):
                outs = [Out('ok', o.st, SV(boolv(smt.simp(NOT(self.truthy(o.st, o.val)))), 'bool')) if o.kind == 'ok' else o for o in outs]
            return outs
        raise Unsupported('compare op', node)

    def eq_method(self, v: V):
        if isinstance(v, SV) and v.cls is not None and not v.cls.external:
            f = v.cls.lookup('__eq__')
            if f is not None:
                return f
        return None

    def py_equals(self, st, a, b, node=None):
        fa, fb = self.eq_method(a), self.eq_method(b)
        if fa is not None and isinstance(a, SV) and a.kind == 'ref':
            return self.call_function(st, FuncV(fa), Args([a, b]))
        if fb is not None and isinstance(b, SV) and b.kind == 'ref':
            # a has no __eq__ of its own (object.__eq__ -> NotImplemented), reflected call
            return self.call_function(st, FuncV(fb), Args([b, a]))
        if isinstance(a, ClassV) or isinstance(b, ClassV) or isinstance(a, (FuncV, BoundV)) or isinstance(b, (FuncV, BoundV)):
            return self.ok(st, SV(boolv(smt.simp(self.identical(st, a, b))), 'bool'))
        if isinstance(a, TupleV) and isinstance(b, TupleV):
            if len(a.items) != len(b.items):
                return self.ok(st, self.py_bool(False))
            conj = [self.py_eq_term(st, x, y) for x, y in zip(a.items, b.items)]
            return self.ok(st, SV(boolv(AND(*conj)), 'bool'))
        return self.ok(st, SV(boolv(smt.simp(self.py_eq_term(st, a, b))), 'bool'))

    def contains(self, st, container: V, item: V, node=None):
        if isinstance(container, TupleV):
            it = self.to_term(st, item)
            return self.ok(st, SV(boolv(OR(*[self.py_eq_term(st, x, item) for x in container.items])), 'bool'))
        if isinstance(container, SV):
            t = container.term
            c = container.cls
            if c is not None and not c.external:
                f = c.lookup('__contains__')
                if f is not None:
                    return self.call_function(st, FuncV(f), Args([container, item]))
                g = c.lookup('__getitem__')
                if g is not None and self.cls('collections.abc.Mapping') in c.mro:
                    # Mapping.__contains__ mix-in: try self[key] except KeyError
                    res = []
                    for o in self.call_function(st, FuncV(g), Args([container, item])):
                        if o.kind == 'ok':
                            res.append(Out('ok', o.st, self.py_bool(True)))
                        elif o.kind == 'raise' and self.exc_is(o.st, o.val, self.cls('KeyError')) is True:
                            res.append(Out('ok', o.st, self.py_bool(False)))
                        else:
                            res.append(o)
                    return res
            if container.kind == 'str':
                return self.ok(st, SV(boolv(z3.Contains(self.as_str(st, container), self.as_str(st, item))), 'bool'))
            if c is not None and c.qualname in ('dict', 'set', 'frozenset'):
                k = self.to_term(st, item)
                self.dict_key_facts(st, r_of(t), k)
                return self.ok(st, SV(boolv(self.dict_has(st, r_of(t), k)), 'bool'))
            if c is not None and c.qualname in ('list', 'tuple'):
                k = self.to_term(st, item)
                return self.ok(st, SV(boolv(z3.Contains(self.list_seq(st, r_of(t)), z3.Unit(k))), 'bool'))
            if c is None:
                # unknown container: dispatch on dynamic class (dict-like vs list-like)
                r = r_of(t)
                clt = z3.Select(st.CL, r)
                dictlike = AND(is_ref(t), OR(*[clt == I(self.cls(q).id) for q in ('dict', 'set', 'frozenset')]))
                listlike = AND(is_ref(t), OR(*[clt == I(self.cls(q).id) for q in ('list', 'tuple')]))
                outs = []
                s1, rest = self.fork(st, dictlike)
                if s1 is not None:
                    k = self.to_term(s1, item)
                    self.dict_key_facts(s1, r, k)
                    outs.append(Out('ok', s1, SV(boolv(self.dict_has(s1, r, k)), 'bool')))
                if rest is not None:
                    s2, rest2 = self.fork(rest, listlike)
                    if s2 is not None:
                        k = self.to_term(s2, item)
                        outs.append(Out('ok', s2, SV(boolv(z3.Contains(self.list_seq(s2, r), z3.Unit(k))), 'bool')))
                    if rest2 is not None:
                        s3, rest3 = self.fork(rest2, is_str(t))
                        if s3 is not None and isinstance(item, SV):
                            outs.append(Out('ok', s3, SV(boolv(z3.Contains(s_of(t), s_of(item.term))), 'bool')))
                        if rest3 is not None:
                            raise Unsupported('`in` on a container of unknown class', node)
                return outs
        raise Unsupported(f'contains on {container!r}', node)

    def ev_IfExp(self, st, node):
        res = []
        for o in self.ev(st, node.test):
            if o.kind != 'ok':
                res.append(o)
                continue
            for (s2, truth) in self.ev_truth(o.st, o.val):
                if isinstance(truth, Out):
                    res.append(truth)
                    continue
                tt, ff = self.fork(s2, truth)
                if tt is not None:
                    res.extend(self.ev(tt, node.body))
                if ff is not None:
                    res.extend(self.ev(ff, node.orelse))
        return res

    # ------------------------------------------------------------------ displays
    def ev_Tuple(self, st, node):
        if any(isinstance(e, ast.Starred) for e in node.elts):
            return self.starred_display(st, node, 'tuple')
        return self.ev_seq(st, node.elts, lambda s2, vals: self.ok(s2, TupleV(vals)))

    def starred_display(self, st, node, kind):
        parts = []

        def rec(st, i, acc):
            if i == len(node.elts):
                seq = None
                concrete = all(p[0] == 'one' or isinstance(p[1], TupleV) for p in acc)
                if concrete and kind == 'tuple':
                    items = []
                    for p in acc:
                        items.extend(p[1].items if p[0] == 'star' else [p[1]])
                    return self.ok(st, TupleV(items))
                segs = []
                for p in acc:
                    if p[0] == 'one':
                        segs.append(z3.Unit(self.to_term(st, p[1])))
                    else:
                        segs.append(self.seq_view(st, p[1]))
                seq = segs[0] if len(segs) == 1 else (z3.Concat(*segs) if segs else z3.Empty(smt.SeqV))
                if kind == 'tuple':
                    o = self.alloc(st, self.cls('tuple'))
                    st.LS = z3.Store(st.LS, r_of(o.term), seq)
                    return self.ok(st, o)
                return self.ok(st, self.new_list(st, seq))
            e = node.elts[i]
            tgt = e.value if isinstance(e, ast.Starred) else e
            outs = []
            for o in self.ev(st, tgt):
                if o.kind != 'ok':
                    outs.append(o)
                else:
                    outs.extend(rec(o.st, i + 1, acc + [('star' if isinstance(e, ast.Starred) else 'one', o.val)]))
            return outs

        return rec(st.copy(), 0, [])

    def ev_List(self, st, node):
        if any(isinstance(e, ast.Starred) for e in node.elts):
            return self.starred_display(st, node, 'list')

        def k(s2, vals):
            s2 = s2.copy()
            seq = self.seq_of_terms([self.to_term(s2, v) for v in vals])
            return self.ok(s2, self.new_list(s2, seq))

        return self.ev_seq(st, node.elts, k)

    def ev_Dict(self, st, node):
        if any(k is None for k in node.keys):
            raise Unsupported('dict display with ** unpacking', node)
        nodes = []
        for k_, v_ in zip(node.keys, node.values):
            nodes.extend([k_, v_])

        def k(s2, vals):
            s2 = s2.copy()
            d = self.new_dict(s2)
            r = r_of(d.term)
            for i in range(0, len(vals), 2):
                self.dict_set(s2, r, self.to_term(s2, vals[i]), self.to_term(s2, vals[i + 1]))
            return self.ok(s2, d)

        return self.ev_seq(st, nodes, k)

    def ev_Set(self, st, node):
        def k(s2, vals):
            s2 = s2.copy()
            d = self.new_dict(s2, self.cls('set'))
            r = r_of(d.term)
            for v in vals:
                self.dict_set(s2, r, self.to_term(s2, v), none)
            return self.ok(s2, d)

        return self.ev_seq(st, node.elts, k)

    def ev_JoinedStr(self, st, node):
        """f-string.  Parts that are known strings are concatenated exactly; any other formatted value makes the
        whole string opaque (fresh), its sub-expressions still being evaluated for their exceptions when simple."""
        parts = []
        cur = st
        exact = True
        for p in node.values:
            if isinstance(p, ast.Constant):
                parts.append(S(p.value))
                continue
            try:
                outs = self.ev(cur, p.value)
            except Unsupported:
                self.note('f-string part abstracted (opaque text): ' + ast.unparse(p.value)[:60])
                exact = False
                continue
            oks = [o for o in outs if o.kind == 'ok']
            if len(outs) != 1 or len(oks) != 1:
                # formatting sub-expression forks or may raise: abstract (messages only)
                self.note('f-string part abstracted (opaque text): ' + ast.unparse(p.value)[:60])
                exact = False
                continue
            cur = oks[0].st
            v = oks[0].val
            if isinstance(v, SV) and v.kind == 'str' and p.conversion == -1 and p.format_spec is None:
                parts.append(self.as_str(cur, v))
            elif isinstance(v, SV) and p.conversion == -1 and p.format_spec is None:
                parts.append(self.str_of(cur, v))
            else:
                exact = False
        if not exact:
            return self.ok(cur, SV(strv(smt.fresh('fstr', smt.Str)), 'str'))
        if not parts:
            return self.ok(cur, self.py_str(''))
        t = parts[0] if len(parts) == 1 else z3.Concat(*parts)
        return self.ok(cur, SV(strv(t), 'str'))

    def str_of(self, st, v: SV):
        """str(v) as a z3 String: identity on str, int.to.str on ints, uninterpreted injective-free function otherwise"""
        t = v.term
        f = self.str_fn()
        return z3.If(is_str(t), s_of(t), f(t))

    def str_fn(self):
        if not hasattr(self, '_strfn'):
            self._strfn = z3.Function('py_str', Val, smt.Str)
        return self._strfn

    def ev_ListComp(self, st, node):
        """[x for x in xs if cond(x)] (a filter): a fresh list characterised by membership; order and multiplicity of
        the result are left unspecified (recorded).  Other comprehension shapes are outside the subset."""
        if len(node.generators) != 1 or node.generators[0].is_async:
            raise Unsupported('comprehension shape', node)
        g = node.generators[0]
        if not (isinstance(node.elt, ast.Name) and isinstance(g.target, ast.Name) and node.elt.id == g.target.id):
            raise Unsupported('only filter comprehensions [x for x in xs if c] are in the subset', node)

        def k(st2, it):
            seq = it.seq if isinstance(it, IterV) and it.kind == 'seq' else self.seq_view(st2, it)
            st2 = st2.copy()
            e = smt.fresh('ce', Val)
            s3 = st2.copy()
            s3.assume(z3.Contains(seq, z3.Unit(e)))
            a = self.assign(s3, g.target, SV(e))
            cond = TRUE
            cur = a[0].st
            for c in g.ifs:
                o = self.ev(cur, c)
                oks = [x for x in o if x.kind == 'ok']
                if len(o) != 1 or len(oks) != 1:
                    raise Unsupported('comprehension condition forks or may raise', node)
                cond = AND(cond, self.truthy(oks[0].st, oks[0].val))
                cur = oks[0].st
            res = smt.fresh('comp', smt.SeqV)
            st2.assume(z3.ForAll([e], z3.Contains(res, z3.Unit(e)) == AND(z3.Contains(seq, z3.Unit(e)), cond)))
            st2.assume(z3.Length(res) <= z3.Length(seq))
            self.note('filter comprehension: result characterised by membership only (order/multiplicity unspecified)')
            return self.ok(st2, self.new_list(st2, res))

        return self.bind(self.ev(st, g.iter), k)

    def ev_Lambda(self, st, node):
        return self.ok(st, LambdaV(node, dict(st.loc), st.frame))

    def ev_Starred(self, st, node):
        raise Unsupported('starred outside call/display', node)

    def ev_Await(self, st, node):
        return self.bind(self.ev(st, node.value), lambda s2, v: self.await_value(s2, v, node))

    def ev_NamedExpr(self, st, node):
        def k(s2, v):
            s2 = s2.copy()
            s2.loc[node.target.id] = v
            return self.ok(s2, v)
        return self.bind(self.ev(st, node.value), k)

    # ------------------------------------------------------------------ subscripts
    def ev_Subscript(self, st, node):
        if isinstance(node.slice, ast.Slice):
            sl = node.slice
            parts = [node.value] + [x for x in (sl.lower, sl.upper) if x is not None]
            if sl.step is not None:
                raise Unsupported('slice step', node)

            def k(s2, vals):
                base = vals[0]
                idx = 1
                lo = hi = None
                if sl.lower is not None:
                    lo = vals[idx]
                    idx += 1
                if sl.upper is not None:
                    hi = vals[idx]
                return self.slice_v(s2, base, lo, hi, node)

            return self.ev_seq(st, parts, k)
        return self.ev_seq(st, [node.value, node.slice], lambda s2, vals: self.getitem(s2, vals[0], vals[1], node))

    def norm_index(self, idx, ln):
        return z3.If(idx < 0, idx + ln, idx)

    def probe_class(self, st, v, timeout_ms=800):
        """If the path condition (quantified class invariants included) entails that an untyped value is a builtin
        container, return the typed value."""
        if not isinstance(v, SV) or v.cls is not None or v.kind not in (None, 'ref'):
            return v
        key = ('probe', v.term.get_id(), len(st.pc))
        cache = self.__dict__.setdefault('_probe_cache', {})
        if key in cache:
            return cache[key]
        res = v
        t = v.term
        clt = z3.Select(st.CL, r_of(t))
        for q in ('dict', 'list', 'tuple', 'set'):
            if self.entails(st, AND(is_ref(t), clt == I(self.cls(q).id)), timeout_ms):
                res = SV(t, 'ref', self.cls(q), True)
                break
        cache[key] = res
        return res

    def probe_instance(self, st, v, name, timeout_ms=int(__import__("os").environ.get("PYVC_PROBE_MS", "800"))):
        """an untyped receiver of method `name`: if the path condition (class invariants included) entails that it is an
        instance of a repository class that introduces `name`, use that class as the static type"""
        roots = []
        for c in self.index.classes.values():
            if c.external or name not in c.methods:
                continue
            if not any(name in b.methods for b in c.mro[1:] if not b.external):
                roots.append(c)
        if not roots or len(roots) > 6:
            return v
        key = ('probei', v.term.get_id(), name, len(st.pc))
        cache = self.__dict__.setdefault('_probe_cache', {})
        if key in cache:
            return cache[key]
        res = v
        for c in roots:
            if self.entails(st, self.isinstance_term(st, SV(v.term), c), timeout_ms):
                res = SV(v.term, 'ref', c)
                break
        cache[key] = res
        return res

    def split_kind(self, st, v):
        """fork an untyped SV into its feasible kinds: -> list of (st, typed SV)"""
        if not isinstance(v, SV) or v.kind is not None and (v.kind != 'ref' or v.cls is not None):
            return [(st, v)]
        t = v.term
        res = []
        rest = st
        if v.kind is None:
            for kind, pred in (('str', is_str), ('int', is_int), ('bool', is_bool), ('none', is_none)):
                if rest is None:
                    break
                yes, rest = self.fork(rest, pred(t))
                if yes is not None:
                    res.append((yes, SV(t, kind)))
        if rest is not None:
            clt = z3.Select(rest.CL, r_of(t))
            for q in ('list', 'tuple', 'dict', 'set'):
                if rest is None:
                    break
                yes, rest = self.fork(rest, clt == I(self.cls(q).id))
                if yes is not None:
                    res.append((yes, SV(t, 'ref', self.cls(q), True)))
            if rest is not None:
                res.append((rest, SV(t, 'ref', v.cls)))
        return res

    def slice_v(self, st, base, lo, hi, node=None):
        if isinstance(base, SV) and base.kind != 'str' and base.cls is None:
            outs = []
            for s2, b2 in self.split_kind(st, base):
                if b2.kind == 'str' or (b2.cls is not None and b2.cls.qualname in ('list', 'tuple')):
                    outs.extend(self.slice_v(s2, b2, lo, hi, node))
                else:
                    outs.append(self.raise_new(s2, 'TypeError'))
            return outs
        if isinstance(base, TupleV) and (lo is None or self.const_int(lo) is not None) and (hi is None or self.const_int(hi) is not None):
            l = self.const_int(lo) if lo is not None else None
            h = self.const_int(hi) if hi is not None else None
            return self.ok(st, TupleV(base.items[l:h]))
        if isinstance(base, SV) and base.kind == 'str':
            s = self.as_str(st, base)
            ln = z3.Length(s)
            l = self.clamp(self.norm_index(self.as_int(st, lo), ln), ln) if lo is not None else I(0)
            h = self.clamp(self.norm_index(self.as_int(st, hi), ln), ln) if hi is not None else ln
            return self.ok(st, SV(strv(z3.SubString(s, l, z3.If(h - l < 0, I(0), h - l))), 'str'))
        if isinstance(base, (SV, TupleV)):
            if isinstance(base, SV) and not (base.cls is not None and base.cls.qualname in ('list', 'tuple')):
                raise Unsupported('slice of value of unknown class', node)
            s = self.seq_view(st, base)
            ln = z3.Length(s)
            l = self.clamp(self.norm_index(self.as_int(st, lo), ln), ln) if lo is not None else I(0)
            h = self.clamp(self.norm_index(self.as_int(st, hi), ln), ln) if hi is not None else ln
            sub = z3.SubSeq(s, l, z3.If(h - l < 0, I(0), h - l))
            st = st.copy()
            if isinstance(base, SV) and base.cls.qualname == 'list':
                return self.ok(st, self.new_list(st, sub))
            o = self.alloc(st, self.cls('tuple'))
            st.LS = z3.Store(st.LS, r_of(o.term), sub)
            return self.ok(st, o)
        raise Unsupported(f'slice of {base!r}', node)

    def clamp(self, i, ln):
        return z3.If(i < 0, I(0), z3.If(i > ln, ln, i))

    def const_int(self, v):
        if isinstance(v, SV) and v.kind == 'int':
            t = smt.simp(i_of(v.term))
            if z3.is_int_value(t):
                return t.as_long()
        return None

    def getitem(self, st, base: V, idx: V, node=None) -> List[Out]:
        base = self.probe_class(st, base) if isinstance(base, SV) and base.cls is None and base.kind != 'str' else base
        if isinstance(base, TupleV):
            ci = self.const_int(idx)
            if ci is not None:
                if -len(base.items) <= ci < len(base.items):
                    return self.ok(st, base.items[ci])
                return [self.raise_new(st, 'IndexError')]
            raise Unsupported('symbolic index into concrete tuple', node)
        if isinstance(base, ClassV):
            # typing generics e.g. Dict[str, Any] in expressions: not expected at run time
            raise Unsupported('subscript on class', node)
        if isinstance(base, SV):
            t = base.term
            c = base.cls
            if c is not None and not c.external:
                f = c.lookup('__getitem__')
                if f is not None:
                    return self.call_function(st, FuncV(f), Args([base, idx]))
            if c is not None and c.qualname == 'dict':
                return self.dict_getitem(st, base, idx)
            if c is not None and c.qualname in ('list', 'tuple'):
                return self.seq_getitem(st, base, idx)
            if base.kind == 'str':
                raise Unsupported('string indexing', node)
            if c is None:
                r = r_of(t)
                clt = z3.Select(st.CL, r)
                outs = []
                s1, rest = self.fork(st, AND(is_ref(t), clt == I(self.cls('dict').id)))
                if s1 is not None:
                    outs.extend(self.dict_getitem(s1, SV(t, 'ref', self.cls('dict'), True), idx))
                if rest is not None:
                    s2, rest2 = self.fork(rest, AND(is_ref(t), OR(clt == I(self.cls('list').id), clt == I(self.cls('tuple').id))))
                    if s2 is not None:
                        outs.extend(self.seq_getitem(s2, SV(t, 'ref', self.cls('tuple')), idx))
                    if rest2 is not None:
                        raise Unsupported('subscript on value of unknown class', node)
                return outs
        raise Unsupported(f'getitem on {base!r}', node)

    def dict_getitem(self, st, d: SV, key: V):
        k = self.to_term(st, key)
        r = r_of(d.term)
        self.dict_key_facts(st, r, k)
        has = self.dict_has(st, r, k)
        outs = []
        t, f = self.fork(st, has)
        if t is not None:
            val = self.dict_get(t, r, k)
            t.assume(self.older(t, val))
            outs.append(Out('ok', t, SV(val)))
        if f is not None:
            outs.append(self.raise_new(f, 'KeyError'))
        return outs

    def seq_getitem(self, st, s: SV, idx: V):
        seq = self.list_seq(st, r_of(s.term))
        ln = z3.Length(seq)
        i = self.as_int(st, idx)
        ni = self.norm_index(i, ln)
        inb = AND(ni >= 0, ni < ln)
        outs = []
        t, f = self.fork(st, inb)
        if t is not None:
            val = seq[ni]
            t.assume(self.older(t, val))
            outs.append(Out('ok', t, SV(val)))
        if f is not None:
            outs.append(self.raise_new(f, 'IndexError'))
        return outs
