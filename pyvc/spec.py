# -*- coding: utf-8 -*-
"""pyvc.spec -- the contract language: loading side-car contract files and evaluating specification expressions
(pure, non-forking) over a symbolic state."""
from __future__ import annotations

import ast
import os
from typing import Dict, List, Optional

import z3

from . import smt
from .smt import (AND, FALSE, I, NOT, OR, S, TRUE, Val, b_of, boolv, i_of, intv, is_bool, is_int, is_none, is_ref,
                  is_str, none, r_of, ref, s_of, strv)
from .source import ModuleInfo
from .values import (SV, Args, BoolTermV, BoundV, BuiltinV, ClassV, Frame, FuncV, LambdaV, ModuleV, Out, RawV,
                     SeqTermV, St, SuperV, TupleV, Unsupported, V)


class Contract:
    def __init__(self, target, node, module, opts):
        self.target = target
        self.node = node  # FunctionDef of the contract
        self.module = module  # pseudo ModuleInfo of the contract file
        self.opts = opts
        self.assumed = bool(opts.get('assumed', False))
        self.props = opts.get('props', [])
        self.ghost = opts.get('ghost', [])
        self.name = node.name
        self.stmts = [s for s in node.body if not (isinstance(s, ast.Expr) and isinstance(s.value, ast.Constant))]

    def calls(self, fname):
        return [s.value for s in self.stmts if isinstance(s, ast.Expr) and isinstance(s.value, ast.Call)
                and isinstance(s.value.func, ast.Name) and s.value.func.id == fname]

    def has(self, fname):
        return bool(self.calls(fname))

    def loop_specs(self, ordinal):
        res = {'inv': [], 'mod': None, 'unroll': None, 'item': []}
        for c in self.calls('loop_item_fact'):
            if c.args[0].value == ordinal:
                res['item'].append(c.args[1])
        for c in self.calls('loop_invariant'):
            if c.args[0].value == ordinal:
                res['inv'].append(c.args[1] if len(c.args) == 2 else (c.args[1], c.args[2]))
        for c in self.calls('loop_modifies'):
            if c.args[0].value == ordinal:
                res['mod'] = c.args[1:]
        if not res['inv'] and res['mod'] is None:
            return None
        return res


class SpecFunc:
    def __init__(self, node, module):
        self.node = node
        self.module = module
        self.name = node.name


class ContractIndex:
    def __init__(self, index, dirs):
        self.index = index
        self.by_target: Dict[str, Contract] = {}
        self.lib: Dict[str, Contract] = {}
        self.specfuncs: Dict[str, SpecFunc] = {}
        self.recfuncs: Dict[str, SpecFunc] = {}
        self.modules = []
        self.configs: Dict[str, dict] = {}
        for d in dirs:
            self.load_dir(d)

    def load_dir(self, d):
        for dirpath, _dirs, files in sorted(os.walk(d)):
            for fn in sorted(files):
                if fn.endswith('.py') and not fn.startswith('_'):
                    self.load_file(os.path.join(dirpath, fn))

    def load_file(self, path):
        text = open(path, encoding='utf-8').read()
        tree = ast.parse(text, filename=path)
        modname = 'contracts.' + os.path.basename(path)[:-3]
        m = ModuleInfo(modname, path, text, tree)
        for node in tree.body:
            if isinstance(node, ast.ImportFrom) and node.module and not node.module.startswith('pyvc'):
                for a in node.names:
                    m.imports[a.asname or a.name] = node.module + '.' + a.name
            elif isinstance(node, ast.Import):
                for a in node.names:
                    m.imports[a.asname or a.name.split('.')[0]] = a.name if a.asname else a.name.split('.')[0]
            elif isinstance(node, ast.Assign) and len(node.targets) == 1 and isinstance(node.targets[0], ast.Name):
                if node.targets[0].id == 'CONFIG':
                    self.configs[modname] = ast.literal_eval(node.value)
                else:
                    m.consts[node.targets[0].id] = node.value
            elif isinstance(node, ast.FunctionDef):
                decs = node.decorator_list
                if not decs:
                    continue
                d = decs[0]
                dname = d.func.id if isinstance(d, ast.Call) else (d.id if isinstance(d, ast.Name) else None)
                if dname == 'spec':
                    self.specfuncs[node.name] = SpecFunc(node, m)
                elif dname == 'spec_rec':
                    self.recfuncs[node.name] = SpecFunc(node, m)
                elif dname in ('contract', 'lib'):
                    target = d.args[0].value
                    opts = {}
                    for kw in d.keywords:
                        opts[kw.arg] = ast.literal_eval(kw.value)
                    if dname == 'lib':
                        opts['assumed'] = True
                    c = Contract(target, node, m, opts)
                    c.file = path
                    if dname == 'lib':
                        self.lib[target] = c
                        for other in opts.get('also', []):
                            self.lib[other] = c
                    else:
                        if target in self.by_target:
                            raise RuntimeError(f'duplicate contract for {target}')
                        self.by_target[target] = c
        self.modules.append(m)

    def check_targets(self):
        """every contracted target must exist in the source (a rename must not turn a proof into a vacuous pass)"""
        missing = []
        for t, c in self.by_target.items():
            if t not in self.index.funcs:
                missing.append(t)
                continue
            fi = self.index.funcs[t]
            want = [a.arg for a in fi.node.args.posonlyargs + fi.node.args.args]
            got = [a.arg for a in c.node.args.args if a.arg not in c.ghost]
            if want != got:
                missing.append(f'{t}: signature {want} != contract {got}')
        return missing


SPEC_FUNCS = {'dict_arrays_equal', 'is_namedtuple', 'is_function', 'uf', 'ghost_const', 'same_dict_old', 'is_heap_obj', 'owned', 'take', 'last', 'old', 'implies', 'iff', 'fresh', 'seq', 'dhas', 'dget', 'dlen', 'forall', 'exists', 'type_is',
              'is_str', 'is_int', 'is_none', 'is_bool', 'is_ref', 'calls', 'isinstance', 'len', 'ite', 'cls_of',
              'attr', 'same_dict', 'same_seq', 'sval', 'ival', 'unchanged', 'allocated', 'subseq', 'contains',
              'prefixof', 'suffixof', 'strlen', 'substr', 'str_contains', 'str_indexof', 'int_of', 'empty_seq',
              'unit', 'concat', 'nth', 'truthy', 'callable_', 'is_exact', 'dict_unchanged', 'list_unchanged',
              'fields_unchanged', 'none_', 'ghost', 'is_dict', 'is_list', 'is_tuple', 'is_set', 'bound_method',
              'isinstance_sym', 'enum', 'set_has', 'older', 'heap_unchanged', 'same_class', 'issubclass_of',
              'setlen', 'str_', 'eq', 'ident', 'func', 'has_attr_decl', 'label_of', 'allowed', 'class_level_name', 'is_foreign', 'nonplain_member_name'}


class SpecMixin:
    """Specification-expression evaluation.  Values: SV (Val terms), BoolTermV (z3 Bool), RawV (Int/String/Seq/array
    terms), ClassV/FuncV constants, TupleV."""

    def spec_bool(self, st: St, v: V):
        if isinstance(v, BoolTermV):
            return v.term
        if isinstance(v, RawV) and v.term.sort() == smt.Bool:
            return v.term
        if isinstance(v, SV) and v.kind == 'bool':
            return smt.simp(b_of(v.term))
        return self.truthy(st, v)

    def sev(self, st: St, node: ast.expr, env: dict, cmod) -> V:
        m = getattr(self, 'sev_' + type(node).__name__, None)
        if m is None:
            raise Unsupported(f'spec expression {type(node).__name__}: {ast.unparse(node)}', node)
        return m(st, node, env, cmod)

    def sev_Constant(self, st, node, env, cmod):
        return self.ev_Constant(st, node)[0].val

    def sev_Name(self, st, node, env, cmod):
        n = node.id
        if n in env:
            return env[n]
        if n == 'result':
            raise Unsupported('`result` used outside a postcondition', node)
        if n in ('True', 'False', 'None'):
            return self.builtin_name(n)
        if n == 'all_heap':
            return RawV(z3.StringVal('all_heap'))
        if n == 'NULL':
            pass
        for mod in (cmod, env.get('__target_module__')):
            if mod is None:
                continue
            v = self.module_attr(st, mod, n, missing_ok=True) if not isinstance(mod, str) else None
            if v is not None:
                return v
        return self.builtin_name(n, node)

    def sev_Tuple(self, st, node, env, cmod):
        return TupleV([self.sev(st, e, env, cmod) for e in node.elts])

    def sev_List(self, st, node, env, cmod):
        vals = [self.sev(st, e, env, cmod) for e in node.elts]
        return SeqTermV(self.seq_of_terms([self.to_term(st, v) for v in vals]))

    def sev_Attribute(self, st, node, env, cmod):
        base = self.sev(st, node.value, env, cmod)
        return self.spec_getattr(st, base, node.attr, node)

    def spec_getattr(self, st, base, name, node=None):
        if isinstance(base, (ModuleV, ClassV)):
            outs = self.getattr_v(st, base, name, node)
            if len(outs) != 1 or outs[0].kind != 'ok':
                raise Unsupported(f'spec attribute {name} on {base!r}', node)
            return outs[0].val
        if isinstance(base, SV):
            # class-level constants through the instance (LABEL, ALLOWED, ...): If-chain over the class table
            if base.cls is not None:
                cands = self.candidate_classes(st, base)
                owners = {}
                for c in cands:
                    owner, expr = c.lookup_class_attr(name)
                    f = c.lookup(name)
                    if owner is not None and f is None and name not in {a for k in c.mro for a in k.inst_attrs}:
                        owners.setdefault(owner, []).append(c)
                    else:
                        owners.setdefault(None, []).append(c)
                if None not in owners and owners:
                    clt = z3.Select(st.CL, r_of(base.term))
                    items = list(owners.items())
                    res = None
                    for owner, cs in reversed(items):
                        val = self.to_term(st, self.class_attr_value(st, owner, name))
                        cond = OR(*[clt == I(c.id) for c in cs])
                        res = val if res is None else z3.If(cond, val, res)
                    return SV(res)
                # simple read-only properties `return self._x` are looked through
                f = base.cls.lookup(name)
                if f is not None and f.kind == 'property':
                    body = [s for s in f.node.body if not (isinstance(s, ast.Expr) and isinstance(s.value, ast.Constant))]
                    if len(body) == 1 and isinstance(body[0], ast.Return) and isinstance(body[0].value, ast.Attribute) \
                            and isinstance(body[0].value.value, ast.Name) and body[0].value.value.id == 'self':
                        return self.spec_getattr(st, base, body[0].value.attr, node)
                    raise Unsupported(f'spec: property {name} is not a plain field accessor; use the field', node)
            if base.cls is None:
                # class-level constant read through an untyped object: decided by the dynamic class
                owners = {}
                for c in self.index.classes.values():
                    if c.external:
                        continue
                    owner, expr = c.lookup_class_attr(name)
                    if owner is not None and c.lookup(name) is None and not any(name in k.inst_attrs for k in c.mro):
                        owners.setdefault(owner, []).append(c)
                if owners:
                    clt = z3.Select(st.CL, r_of(base.term))
                    res = self.hload(st, r_of(base.term), name)
                    for owner, cs in owners.items():
                        val = self.to_term(st, self.class_attr_value(st, owner, name))
                        res = z3.If(OR(*[clt == I(c.id) for c in cs]), val, res)
                    return SV(res)
            val = self.hload(st, r_of(base.term), name)
            st.assume(self.older(st, val))
            hint = self.declared_attr_type(base.cls, name) if base.cls is not None else None
            if hint is not None:
                kinds, ci, optional = hint
                fact = self.type_fact(st, val, kinds, ci, optional)
                if fact is not None:
                    # the declared attribute type is an ASSUMPTION (recorded): the hint below must be backed by the fact
                    st.assume(fact)
                    self.assumptions_used.add(f'declared type of {base.cls.name}.{name} assumed: {self.hint_str(hint)}')
                if ci is not None and not kinds:
                    return SV(val, None if optional else 'ref', ci)
                if ci is None and len(kinds) == 1 and not optional:
                    return SV(val, kinds[0])
            return SV(val)
        if isinstance(base, BoundV) and name == '__self__':
            return base.selfv
        raise Unsupported(f'spec attribute {name} on {base!r}', node)

    def sev_Subscript(self, st, node, env, cmod):
        base = self.sev(st, node.value, env, cmod)
        if isinstance(node.slice, ast.Slice):
            lo = self.sev(st, node.slice.lower, env, cmod) if node.slice.lower is not None else None
            hi = self.sev(st, node.slice.upper, env, cmod) if node.slice.upper is not None else None
            if isinstance(base, SeqTermV):
                s = base.term
                ln = z3.Length(s)
                l = self.spec_int(st, lo) if lo is not None else I(0)
                h = self.spec_int(st, hi) if hi is not None else ln
                l = z3.If(l < 0, l + ln, l)
                h = z3.If(h < 0, h + ln, h)
                return SeqTermV(z3.SubSeq(s, l, z3.If(h - l < 0, I(0), h - l)))
            if isinstance(base, (SV, RawV)) and (isinstance(base, RawV) or base.kind == 'str'):
                s = self.spec_str(st, base)
                ln = z3.Length(s)
                l = self.spec_int(st, lo) if lo is not None else I(0)
                h = self.spec_int(st, hi) if hi is not None else ln
                return RawV(z3.SubString(s, l, z3.If(h - l < 0, I(0), h - l)))
            raise Unsupported('spec slice', node)
        idx = self.sev(st, node.slice, env, cmod)
        if isinstance(base, SeqTermV):
            i = self.spec_int(st, idx)
            el = base.term[i]
            # heap well-formedness: the elements of a sequence of this state are values that exist in this state
            st.assume(z3.Implies(AND(i >= 0, i < z3.Length(base.term)), self.older(st, el)))
            return SV(el)  # specification indices are non-negative (no Python wrap-around)
        if isinstance(base, TupleV):
            ci = self.const_int(idx)
            return base.items[ci]
        if isinstance(base, SV):
            c = base.cls
            if c is not None and c.qualname in ('list', 'tuple'):
                s = self.list_seq(st, r_of(base.term))
                i = self.spec_int(st, idx)
                return SV(s[i])
            return SV(self.dict_get(st, r_of(base.term), self.to_term(st, idx)))
        raise Unsupported('spec subscript', node)

    def spec_int(self, st, v):
        if isinstance(v, RawV):
            return v.term
        if isinstance(v, SV):
            return smt.simp(i_of(v.term)) if v.kind == 'int' else i_of(v.term)
        raise Unsupported(f'spec int of {v!r}')

    def spec_str(self, st, v):
        if isinstance(v, RawV):
            return v.term
        if isinstance(v, SV):
            return smt.simp(s_of(v.term)) if v.kind == 'str' else s_of(v.term)
        raise Unsupported(f'spec str of {v!r}')

    def sev_BoolOp(self, st, node, env, cmod):
        ts = [self.spec_bool(st, self.sev(st, v, env, cmod)) for v in node.values]
        return BoolTermV(AND(*ts) if isinstance(node.op, ast.And) else OR(*ts))

    def sev_UnaryOp(self, st, node, env, cmod):
        v = self.sev(st, node.operand, env, cmod)
        if isinstance(node.op, ast.Not):
            return BoolTermV(NOT(self.spec_bool(st, v)))
        if isinstance(node.op, ast.USub):
            return RawV(-self.spec_int(st, v))
        raise Unsupported('spec unary', node)

    def sev_BinOp(self, st, node, env, cmod):
        a = self.sev(st, node.left, env, cmod)
        b = self.sev(st, node.right, env, cmod)
        if isinstance(a, SeqTermV) or isinstance(b, SeqTermV):
            if isinstance(node.op, ast.Add):
                return SeqTermV(z3.Concat(self.spec_seq(st, a), self.spec_seq(st, b)))
        isstr = lambda v: (isinstance(v, RawV) and v.term.sort() == smt.Str) or (isinstance(v, SV) and v.kind == 'str')
        if isstr(a) or isstr(b):
            if isinstance(node.op, ast.Add):
                return RawV(z3.Concat(self.spec_str(st, a), self.spec_str(st, b)))
        x, y = self.spec_int(st, a), self.spec_int(st, b)
        if isinstance(node.op, ast.Add):
            return RawV(x + y)
        if isinstance(node.op, ast.Sub):
            return RawV(x - y)
        if isinstance(node.op, ast.Mult):
            return RawV(x * y)
        raise Unsupported('spec binop', node)

    def spec_seq(self, st, v):
        if isinstance(v, SeqTermV):
            return v.term
        return self.seq_view(st, v)

    def sev_IfExp(self, st, node, env, cmod):
        c = self.spec_bool(st, self.sev(st, node.test, env, cmod))
        a = self.sev(st, node.body, env, cmod)
        b = self.sev(st, node.orelse, env, cmod)
        if isinstance(a, BoolTermV) or isinstance(b, BoolTermV):
            return BoolTermV(z3.If(c, self.spec_bool(st, a), self.spec_bool(st, b)))
        if isinstance(a, SeqTermV):
            return SeqTermV(z3.If(c, a.term, self.spec_seq(st, b)))
        if isinstance(a, RawV) and isinstance(b, RawV):
            return RawV(z3.If(c, a.term, b.term))
        return SV(z3.If(c, self.to_term(st, a), self.to_term(st, b)))

    def spec_equal(self, st, a, b):
        if isinstance(a, SeqTermV) or isinstance(b, SeqTermV):
            return self.spec_seq(st, a) == self.spec_seq(st, b)
        if isinstance(a, RawV) or isinstance(b, RawV):
            ra = a.term if isinstance(a, RawV) else None
            rb = b.term if isinstance(b, RawV) else None
            srt = (ra if ra is not None else rb).sort()
            if srt == smt.Int:
                return self.spec_int(st, a) == self.spec_int(st, b)
            if srt == smt.Str:
                return self.spec_str(st, a) == self.spec_str(st, b)
            if srt == smt.Bool:
                return self.spec_bool(st, a) == self.spec_bool(st, b)
            return ra == rb
        if isinstance(a, BoolTermV) or isinstance(b, BoolTermV):
            return self.spec_bool(st, a) == self.spec_bool(st, b)
        if isinstance(a, TupleV) and isinstance(b, TupleV):
            if len(a.items) != len(b.items):
                return FALSE
            return AND(*[self.spec_equal(st, x, y) for x, y in zip(a.items, b.items)])
        return self.py_eq_term(st, a, b)

    def sev_Compare(self, st, node, env, cmod):
        left = self.sev(st, node.left, env, cmod)
        conj = []
        for op, rn in zip(node.ops, node.comparators):
            right = self.sev(st, rn, env, cmod)
            if isinstance(op, ast.Is):
                t = self.identical(st, left, right)
            elif isinstance(op, ast.IsNot):
                t = NOT(self.identical(st, left, right))
            elif isinstance(op, ast.Eq):
                t = self.spec_equal(st, left, right)
            elif isinstance(op, ast.NotEq):
                t = NOT(self.spec_equal(st, left, right))
            elif isinstance(op, (ast.Lt, ast.LtE, ast.Gt, ast.GtE)):
                x, y = self.spec_int(st, left), self.spec_int(st, right)
                t = {ast.Lt: x < y, ast.LtE: x <= y, ast.Gt: x > y, ast.GtE: x >= y}[type(op)]
            elif isinstance(op, (ast.In, ast.NotIn)):
                t = self.spec_in(st, left, right, node)
                if isinstance(op, ast.NotIn):
                    t = NOT(t)
            else:
                raise Unsupported('spec compare', node)
            conj.append(t)
            left = right
        return BoolTermV(AND(*conj))

    def spec_in(self, st, item, cont, node=None):
        if isinstance(cont, SeqTermV):
            return z3.Contains(cont.term, z3.Unit(self.to_term(st, item)))
        if isinstance(cont, TupleV):
            return OR(*[self.spec_equal(st, item, x) for x in cont.items])
        if isinstance(cont, RawV) and cont.term.sort() == smt.HasMap:
            return z3.Select(cont.term, self.to_term(st, item))
        if isinstance(cont, SV):
            c = cont.cls
            if c is not None and c.qualname in ('list', 'tuple'):
                return z3.Contains(self.list_seq(st, r_of(cont.term)), z3.Unit(self.to_term(st, item)))
            if cont.kind == 'str':
                return z3.Contains(self.spec_str(st, cont), self.spec_str(st, item))
            return self.dict_has(st, r_of(cont.term), self.to_term(st, item))
        raise Unsupported('spec in', node)

    def sev_Lambda(self, st, node, env, cmod):
        return LambdaV(node, dict(env), None)

    # ------------------------------------------------------------------ spec calls
    def sev_Call(self, st, node, env, cmod):
        f = node.func
        if isinstance(f, ast.Name) and f.id in SPEC_FUNCS and f.id not in env:
            return getattr(self, 'sf_' + f.id)(st, node, env, cmod)
        if isinstance(f, ast.Name) and f.id in self.contracts.recfuncs:
            return self.call_recfunc(st, f.id, [self.sev(st, a, env, cmod) for a in node.args])
        if isinstance(f, ast.Name) and f.id in self.contracts.specfuncs:
            return self.call_specfunc(st, self.contracts.specfuncs[f.id], [self.sev(st, a, env, cmod) for a in node.args], env)
        if isinstance(f, ast.Attribute):
            base = self.sev(st, f.value, env, cmod)
            args = [self.sev(st, a, env, cmod) for a in node.args]
            return self.spec_method(st, base, f.attr, args, node)
        raise Unsupported(f'spec call {ast.unparse(node)}', node)

    def call_specfunc(self, st, sf: SpecFunc, args, env):
        params = [a.arg for a in sf.node.args.args]
        if len(params) != len(args):
            raise Unsupported(f'spec function {sf.name} arity')
        e = {p: a for p, a in zip(params, args)}
        e['__target_module__'] = env.get('__target_module__')
        if '__old__' in env:
            e['__old__'] = env['__old__']
        if 'result' in env:
            e['__result__'] = env['result']
        depth = env.get('__depth__', 0) + 1
        if depth > 6:
            raise Unsupported(f'spec function {sf.name}: recursion too deep (use a loop-free definition)')
        e['__depth__'] = depth
        val = None
        for s in sf.node.body:
            if isinstance(s, ast.Expr) and isinstance(s.value, ast.Constant):
                continue
            if isinstance(s, ast.Assign):
                e[s.targets[0].id] = self.sev(st, s.value, e, sf.module)
            elif isinstance(s, ast.Return):
                val = self.sev(st, s.value, e, sf.module)
                break
            else:
                raise Unsupported(f'spec function {sf.name}: only assignments and a final return are allowed')
        return val

    SORTS = {'seq': lambda: smt.SeqV, 'str': lambda: smt.Str, 'int': lambda: smt.Int, 'val': lambda: Val, 'bool': lambda: smt.Bool}

    def _wrap_sort(self, term):
        srt = term.sort()
        if srt == smt.SeqV:
            return SeqTermV(term)
        if srt == Val:
            return SV(term)
        if srt == smt.Bool:
            return BoolTermV(term)
        return RawV(term)

    def _unwrap_sort(self, st, v, sortname):
        if sortname == 'seq':
            return self.spec_seq(st, v)
        if sortname == 'str':
            return self.spec_str(st, v)
        if sortname == 'int':
            return self.spec_int(st, v)
        if sortname == 'bool':
            return self.spec_bool(st, v)
        return self.to_term(st, v)

    def rec_func(self, name):
        """z3 RecFunction for a @spec_rec definition (pure, heap-independent)"""
        cache = self.__dict__.setdefault('_recfuncs', {})
        if name in cache:
            return cache[name]
        sf = self.contracts.recfuncs[name]
        node = sf.node
        psorts = [a.annotation.value for a in node.args.args]
        rsort = node.returns.value
        f = z3.RecFunction('spec_' + name, *[self.SORTS[p]() for p in psorts], self.SORTS[rsort]())
        cache[name] = (f, psorts, rsort)
        params = [z3.Const('rp_' + a.arg, self.SORTS[p]()) for a, p in zip(node.args.args, psorts)]
        env = {a.arg: self._wrap_sort(c) for a, c in zip(node.args.args, params)}
        dummy = St.initial('rec')
        val = None
        for s_ in node.body:
            if isinstance(s_, ast.Expr) and isinstance(s_.value, ast.Constant):
                continue
            if isinstance(s_, ast.Assign):
                env[s_.targets[0].id] = self.sev(dummy, s_.value, env, sf.module)
            elif isinstance(s_, ast.Return):
                val = self.sev(dummy, s_.value, env, sf.module)
        z3.RecAddDefinition(f, params, self._unwrap_sort(dummy, val, rsort))
        return cache[name]

    def call_recfunc(self, st, name, args):
        f, psorts, rsort = self.rec_func(name)
        targs = [self._unwrap_sort(st, a, p) for a, p in zip(args, psorts)]
        return self._wrap_sort(f(*targs))

    def sf_take(self, st, node, env, cmod):
        a, n = self._args(st, node, env, cmod)
        return SeqTermV(z3.SubSeq(self.spec_seq(st, a), I(0), self.spec_int(st, n)))

    def sf_last(self, st, node, env, cmod):
        (a,) = self._args(st, node, env, cmod)
        s_ = self.spec_seq(st, a)
        return SV(s_[z3.Length(s_) - 1])

    def spec_method(self, st, base, name, args, node):
        if name == 'startswith':
            return BoolTermV(z3.PrefixOf(self.spec_str(st, args[0]), self.spec_str(st, base)))
        if name == 'endswith':
            return BoolTermV(z3.SuffixOf(self.spec_str(st, args[0]), self.spec_str(st, base)))
        if name == 'get' and isinstance(base, SV):
            k = self.to_term(st, args[0])
            r = r_of(base.term)
            dflt = self.to_term(st, args[1]) if len(args) > 1 else none
            return SV(z3.If(self.dict_has(st, r, k), self.dict_get(st, r, k), dflt))
        raise Unsupported(f'spec method .{name}', node)

    def _args(self, st, node, env, cmod):
        return [self.sev(st, a, env, cmod) for a in node.args]

    def sf_old(self, st, node, env, cmod):
        o = env.get('__old__')
        if o is None:
            raise Unsupported('old() outside a two-state context', node)
        return self.sev(o, node.args[0], env, cmod)

    def sf_implies(self, st, node, env, cmod):
        a, b = self._args(st, node, env, cmod)
        return BoolTermV(z3.Implies(self.spec_bool(st, a), self.spec_bool(st, b)))

    def sf_iff(self, st, node, env, cmod):
        a, b = self._args(st, node, env, cmod)
        return BoolTermV(self.spec_bool(st, a) == self.spec_bool(st, b))

    def sf_ite(self, st, node, env, cmod):
        return self.sev_IfExp(st, ast.IfExp(test=node.args[0], body=node.args[1], orelse=node.args[2]), env, cmod)

    def sf_fresh(self, st, node, env, cmod):
        (a,) = self._args(st, node, env, cmod)
        o = env.get('__old__')
        if o is None:
            raise Unsupported('fresh() outside a postcondition', node)
        t = self.to_term(st, a)
        return BoolTermV(AND(is_ref(t), r_of(t) >= o.A, r_of(t) < st.A))

    def sf_allocated(self, st, node, env, cmod):
        (a,) = self._args(st, node, env, cmod)
        t = self.to_term(st, a)
        return BoolTermV(z3.Implies(is_ref(t), r_of(t) < st.A))

    def sf_older(self, st, node, env, cmod):
        a, b = self._args(st, node, env, cmod)
        return BoolTermV(r_of(self.to_term(st, a)) < r_of(self.to_term(st, b)))

    def sf_seq(self, st, node, env, cmod):
        (a,) = self._args(st, node, env, cmod)
        return SeqTermV(self.spec_seq(st, a))

    def sf_empty_seq(self, st, node, env, cmod):
        return SeqTermV(z3.Empty(smt.SeqV))

    def sf_unit(self, st, node, env, cmod):
        (a,) = self._args(st, node, env, cmod)
        return SeqTermV(z3.Unit(self.to_term(st, a)))

    def sf_concat(self, st, node, env, cmod):
        vals = self._args(st, node, env, cmod)
        return SeqTermV(z3.Concat(*[self.spec_seq(st, v) for v in vals]))

    def sf_nth(self, st, node, env, cmod):
        a, i = self._args(st, node, env, cmod)
        return SV(self.spec_seq(st, a)[self.spec_int(st, i)])

    def sf_subseq(self, st, node, env, cmod):
        a, lo, n = self._args(st, node, env, cmod)
        return SeqTermV(z3.SubSeq(self.spec_seq(st, a), self.spec_int(st, lo), self.spec_int(st, n)))

    def sf_contains(self, st, node, env, cmod):
        a, x = self._args(st, node, env, cmod)
        return BoolTermV(z3.Contains(self.spec_seq(st, a), z3.Unit(self.to_term(st, x))))

    def sf_dhas(self, st, node, env, cmod):
        d, k = self._args(st, node, env, cmod)
        r = r_of(self.to_term(st, d))
        has = self.dict_has(st, r, self.to_term(st, k))
        # a mapping that has a key is not empty (instance fact relating the membership and length views)
        st.assume(z3.Implies(has, z3.Select(st.DL, r) >= 1))
        # heap well-formedness: the keys of a mapping of this state are values that exist in this state
        st.assume(z3.Implies(has, self.older(st, self.to_term(st, k))))
        return BoolTermV(has)

    sf_set_has = sf_dhas

    def sf_dget(self, st, node, env, cmod):
        d, k = self._args(st, node, env, cmod)
        val = self.dict_get(st, r_of(self.to_term(st, d)), self.to_term(st, k))
        st.assume(z3.Implies(self.dict_has(st, r_of(self.to_term(st, d)), self.to_term(st, k)), self.older(st, val)))
        return SV(val)

    def sf_dlen(self, st, node, env, cmod):
        (d,) = self._args(st, node, env, cmod)
        return RawV(self.dict_len(st, r_of(self.to_term(st, d))))

    sf_setlen = sf_dlen

    def sf_len(self, st, node, env, cmod):
        (a,) = self._args(st, node, env, cmod)
        if isinstance(a, SeqTermV):
            return RawV(z3.Length(a.term))
        if isinstance(a, TupleV):
            return RawV(I(len(a.items)))
        if isinstance(a, RawV) and a.term.sort() == smt.Str:
            return RawV(z3.Length(a.term))
        if isinstance(a, SV):
            if a.kind == 'str':
                return RawV(z3.Length(self.spec_str(st, a)))
            c = a.cls
            if c is not None and c.qualname in ('list', 'tuple'):
                return RawV(z3.Length(self.list_seq(st, r_of(a.term))))
            if c is not None and c.qualname in ('dict', 'set', 'frozenset'):
                return RawV(self.dict_len(st, r_of(a.term)))
        raise Unsupported('spec len(): state the container kind with seq(x)/dlen(x)', node)

    def sf_strlen(self, st, node, env, cmod):
        (a,) = self._args(st, node, env, cmod)
        return RawV(z3.Length(self.spec_str(st, a)))

    def sf_substr(self, st, node, env, cmod):
        a, lo, n = self._args(st, node, env, cmod)
        return RawV(z3.SubString(self.spec_str(st, a), self.spec_int(st, lo), self.spec_int(st, n)))

    def sf_prefixof(self, st, node, env, cmod):
        a, b = self._args(st, node, env, cmod)
        return BoolTermV(z3.PrefixOf(self.spec_str(st, a), self.spec_str(st, b)))

    def sf_suffixof(self, st, node, env, cmod):
        a, b = self._args(st, node, env, cmod)
        return BoolTermV(z3.SuffixOf(self.spec_str(st, a), self.spec_str(st, b)))

    def sf_str_contains(self, st, node, env, cmod):
        a, b = self._args(st, node, env, cmod)
        return BoolTermV(z3.Contains(self.spec_str(st, a), self.spec_str(st, b)))

    def sf_str_indexof(self, st, node, env, cmod):
        a, b = self._args(st, node, env, cmod)
        return RawV(z3.IndexOf(self.spec_str(st, a), self.spec_str(st, b), 0))

    def sf_sval(self, st, node, env, cmod):
        (a,) = self._args(st, node, env, cmod)
        return RawV(self.spec_str(st, a))

    def sf_str_(self, st, node, env, cmod):
        (a,) = self._args(st, node, env, cmod)
        if isinstance(a, RawV):
            return SV(strv(a.term), 'str')
        return SV(strv(self.str_of(st, a)), 'str')

    def sf_ival(self, st, node, env, cmod):
        (a,) = self._args(st, node, env, cmod)
        return RawV(self.spec_int(st, a))

    def sf_int_of(self, st, node, env, cmod):
        (a,) = self._args(st, node, env, cmod)
        return SV(intv(self.spec_int(st, a)), 'int')

    def _kind(self, st, node, env, cmod, pred):
        (a,) = self._args(st, node, env, cmod)
        return BoolTermV(pred(self.to_term(st, a)))

    def sf_is_str(self, st, node, env, cmod):
        return self._kind(st, node, env, cmod, is_str)

    def sf_is_int(self, st, node, env, cmod):
        return self._kind(st, node, env, cmod, is_int)

    def sf_is_none(self, st, node, env, cmod):
        return self._kind(st, node, env, cmod, is_none)

    def sf_is_bool(self, st, node, env, cmod):
        return self._kind(st, node, env, cmod, is_bool)

    def sf_is_ref(self, st, node, env, cmod):
        return self._kind(st, node, env, cmod, is_ref)

    def _is_cls(self, st, node, env, cmod, names):
        (a,) = self._args(st, node, env, cmod)
        t = self.to_term(st, a)
        clt = z3.Select(st.CL, r_of(t))
        return BoolTermV(AND(is_ref(t), OR(*[clt == I(self.cls(q).id) for q in names])))

    def sf_is_dict(self, st, node, env, cmod):
        return self._is_cls(st, node, env, cmod, ['dict'])

    def sf_is_list(self, st, node, env, cmod):
        return self._is_cls(st, node, env, cmod, ['list'])

    def sf_is_tuple(self, st, node, env, cmod):
        return self._is_cls(st, node, env, cmod, ['tuple'])

    def sf_is_function(self, st, node, env, cmod):
        return self._is_cls(st, node, env, cmod, ['function', 'method'])

    def sf_is_namedtuple(self, st, node, env, cmod):
        return self._is_cls(st, node, env, cmod, ['tuple_namedtuple'])

    def sf_is_set(self, st, node, env, cmod):
        return self._is_cls(st, node, env, cmod, ['set', 'frozenset'])

    def sf_isinstance(self, st, node, env, cmod):
        a, c = self._args(st, node, env, cmod)
        cl = self.class_list(c, node)
        if cl is None:
            f = self.uf('py_isinstance', [Val, Val], smt.Bool)
            return BoolTermV(f(self.to_term(st, a), self.to_term(st, c)))
        return BoolTermV(OR(*[self.isinstance_ext(st, a, ci) for ci in cl]))

    def sf_isinstance_sym(self, st, node, env, cmod):
        a, c = self._args(st, node, env, cmod)
        f = self.uf('py_isinstance', [Val, Val], smt.Bool)
        return BoolTermV(f(self.to_term(st, a), self.to_term(st, c)))

    def sf_type_is(self, st, node, env, cmod):
        a, c = self._args(st, node, env, cmod)
        t = self.to_term(st, a)
        return BoolTermV(AND(is_ref(t), z3.Select(st.CL, r_of(t)) == I(c.ci.id)))

    def sf_same_class(self, st, node, env, cmod):
        a, b = self._args(st, node, env, cmod)
        return BoolTermV(z3.Select(st.CL, r_of(self.to_term(st, a))) == z3.Select(st.CL, r_of(self.to_term(st, b))))

    def sf_cls_of(self, st, node, env, cmod):
        (a,) = self._args(st, node, env, cmod)
        return SV(ref(z3.Select(st.CL, r_of(self.to_term(st, a)))), 'ref')

    def sf_attr(self, st, node, env, cmod):
        a, n = self._args(st, node, env, cmod)
        val = self.hload(st, r_of(self.to_term(st, a)), self.spec_str(st, n))
        st.assume(self.older(st, val))
        return SV(val)

    def sf_truthy(self, st, node, env, cmod):
        (a,) = self._args(st, node, env, cmod)
        return BoolTermV(self.truthy(st, a))

    def sf_callable_(self, st, node, env, cmod):
        (a,) = self._args(st, node, env, cmod)
        outs = self.bi_callable(st, Args([a]), node)
        return BoolTermV(self.truthy(st, outs[0].val))

    def sf_eq(self, st, node, env, cmod):
        a, b = self._args(st, node, env, cmod)
        return BoolTermV(self.to_term(st, a) == self.to_term(st, b))

    sf_ident = sf_eq

    def sf_calls(self, st, node, env, cmod):
        return SeqTermV(st.TR)

    def sf_func(self, st, node, env, cmod):
        """func('plumpy.mod.Class.meth') -> the function object constant"""
        q = node.args[0].value
        return FuncV(self.index.funcs[q])

    def sf_enum(self, st, node, env, cmod):
        a = self.sev(st, node.args[0], env, cmod)
        return a

    def sf_is_foreign(self, st, node, env, cmod):
        """is_foreign(x): x is an object whose class is not in the class table (a user-defined class or one of its
        instances): its attributes are read from the heap, calling them is a call into unknown code"""
        (a,) = self._args(st, node, env, cmod)
        t = self.to_term(st, a)
        return BoolTermV(AND(is_ref(t), r_of(t) >= I(self.index.first_free_id),
                             z3.Select(st.CL, r_of(t)) >= I(self.index.first_free_id)))

    def sf_nonplain_member_name(self, st, node, env, cmod):
        """nonplain_member_name(obj, name): `name` is a property / static method / class method of the static class of obj (getattr
        would run or return something other than a bound method or the instance attribute)"""
        obj, name = self._args(st, node, env, cmod)
        nm = s_of(self.to_term(st, name))
        ci = obj.cls if isinstance(obj, SV) else None
        if ci is None:
            return BoolTermV(FALSE)
        names = set()
        for k in ci.mro:
            if not k.external:
                names.update(n_ for n_, f_ in k.methods.items() if f_.kind != 'method')
        return BoolTermV(OR(*[nm == S(m) for m in sorted(names)]) if names else FALSE)

    def sf_class_level_name(self, st, node, env, cmod):
        """class_level_name(obj, name): `name` is defined at class level (method, property, static/class method) by the
        static class of obj, one of its bases or one of its subclasses in the class table -- getattr(obj, name) then does
        not read the instance attribute"""
        obj, name = self._args(st, node, env, cmod)
        nm = s_of(self.to_term(st, name))
        names = set()
        ci = obj.cls if isinstance(obj, SV) else None
        if ci is None:
            return BoolTermV(FALSE)
        for c in ([ci] if obj.exact else self.index.subclasses(ci)):
            for k in c.mro:
                if not k.external:
                    names.update(k.methods.keys())
        return BoolTermV(OR(*[nm == S(m) for m in sorted(names)]) if names else FALSE)

    def sf_bound_method(self, st, node, env, cmod):
        """bound_method(v, obj, 'name'): v is a method object bound to obj with that __name__"""
        v, obj, name = self._args(st, node, env, cmod)
        t = self.to_term(st, v)
        r = r_of(t)
        return BoolTermV(AND(is_ref(t), z3.Select(st.CL, r) == I(self.cls('method').id),
                             self.hload(st, r, '__self__') == self.to_term(st, obj),
                             self.hload(st, r, '__name__') == self.to_term(st, name)))

    def _quant(self, st, node, env, cmod, universal):
        lam = node.args[-1]
        if not isinstance(lam, ast.Lambda):
            raise Unsupported('forall/exists need a lambda', node)
        sorts = [a.value for a in node.args[:-1]] if len(node.args) > 1 else ['val'] * len(lam.args.args)
        e = dict(env)
        bound = []
        for p, srt in zip(lam.args.args, sorts):
            if srt == 'int':
                c = smt.fresh('q' + p.arg, smt.Int)
                e[p.arg] = RawV(c)
            elif srt == 'ref':
                c = smt.fresh('q' + p.arg, smt.Int)
                e[p.arg] = SV(ref(c), 'ref')
            elif srt == 'str':
                c = smt.fresh('q' + p.arg, smt.Str)
                e[p.arg] = SV(strv(c), 'str')
            else:
                c = smt.fresh('q' + p.arg, Val)
                e[p.arg] = SV(c)
            bound.append(c)
        n0 = len(st.pc)
        olds = [(o_, len(o_.pc)) for o_ in [env.get('__old__')] if o_ is not None]
        body = self.spec_bool(st, self.sev(st, lam.body, e, cmod))
        # side facts emitted while evaluating the body mention the bound variables: re-add them universally closed
        for target, start in [(st, n0)] + olds:
            side = target.pc[start:]
            del target.pc[start:]
            for f in side:
                target.assume(z3.ForAll(bound, f) if smt.mentions(f, bound) else f)
        return BoolTermV(z3.ForAll(bound, body) if universal else z3.Exists(bound, body))

    def sf_forall(self, st, node, env, cmod):
        return self._quant(st, node, env, cmod, True)

    def sf_exists(self, st, node, env, cmod):
        return self._quant(st, node, env, cmod, False)

    def sf_same_dict(self, st, node, env, cmod):
        a, b = self._args(st, node, env, cmod)
        ra, rb = r_of(self.to_term(st, a)), r_of(self.to_term(st, b))
        k = smt.fresh('k', Val)
        return BoolTermV(AND(z3.Select(st.DH, ra) == z3.Select(st.DH, rb),
                             self.dict_len(st, ra) == self.dict_len(st, rb),
                             z3.ForAll([k], z3.Implies(self.dict_has(st, ra, k), self.dict_get(st, ra, k) == self.dict_get(st, rb, k)))))

    def sf_same_dict_old(self, st, node, env, cmod):
        """same_dict_old(a, b): contents of a now == contents of b in the pre-state"""
        a, b = self._args(st, node, env, cmod)
        o = env['__old__']
        ra, rb = r_of(self.to_term(st, a)), r_of(self.to_term(st, b))
        k = smt.fresh('k', Val)
        return BoolTermV(AND(z3.Select(st.DH, ra) == z3.Select(o.DH, rb),
                             self.dict_len(st, ra) == self.dict_len(o, rb),
                             z3.ForAll([k], z3.Implies(self.dict_has(st, ra, k), self.dict_get(st, ra, k) == self.dict_get(o, rb, k)))))

    def sf_dict_arrays_equal(self, st, node, env, cmod):
        """extensional equality of two dictionaries' has/value arrays (quantifier-free; stronger than same_dict)"""
        a, b = self._args(st, node, env, cmod)
        ra, rb = r_of(self.to_term(st, a)), r_of(self.to_term(st, b))
        return BoolTermV(AND(z3.Select(st.DH, ra) == z3.Select(st.DH, rb), z3.Select(st.DV, ra) == z3.Select(st.DV, rb),
                             self.dict_len(st, ra) == self.dict_len(st, rb)))

    def sf_same_seq(self, st, node, env, cmod):
        a, b = self._args(st, node, env, cmod)
        return BoolTermV(self.spec_seq(st, a) == self.spec_seq(st, b))

    def sf_dict_unchanged(self, st, node, env, cmod):
        (a,) = self._args(st, node, env, cmod)
        o = env['__old__']
        r = r_of(self.to_term(st, a))
        return BoolTermV(AND(z3.Select(st.DH, r) == z3.Select(o.DH, r), z3.Select(st.DV, r) == z3.Select(o.DV, r),
                             z3.Select(st.DL, r) == z3.Select(o.DL, r)))

    def sf_list_unchanged(self, st, node, env, cmod):
        (a,) = self._args(st, node, env, cmod)
        o = env['__old__']
        r = r_of(self.to_term(st, a))
        return BoolTermV(z3.Select(st.LS, r) == z3.Select(o.LS, r))

    def sf_fields_unchanged(self, st, node, env, cmod):
        (a,) = self._args(st, node, env, cmod)
        o = env['__old__']
        r = r_of(self.to_term(st, a))
        return BoolTermV(z3.Select(st.H, r) == z3.Select(o.H, r))

    def sf_heap_unchanged(self, st, node, env, cmod):
        o = env['__old__']
        return BoolTermV(AND(st.H == o.H, st.DH == o.DH, st.DV == o.DV, st.DL == o.DL, st.LS == o.LS))

    def sf_unchanged(self, st, node, env, cmod):
        o = env['__old__']
        conj = []
        for a in node.args:
            conj.append(self.spec_equal(st, self.sev(st, a, env, cmod), self.sev(o, a, env, cmod)))
        return BoolTermV(AND(*conj))

    def sf_ghost(self, st, node, env, cmod):
        name = node.args[0].value
        arr = st.ghost[name]
        if len(node.args) == 1:
            return RawV(arr)
        a = self.sev(st, node.args[1], env, cmod)
        res = z3.Select(arr, r_of(self.to_term(st, a)))
        if res.sort() == smt.SeqV:
            return SeqTermV(res)
        if res.sort() == Val:
            return SV(res)
        if res.sort() == smt.Bool:
            return BoolTermV(res)
        return RawV(res)

    def sf_owned(self, st, node, env, cmod):
        (a,) = self._args(st, node, env, cmod)
        return BoolTermV(z3.Select(st.ghost['OWN'], r_of(self.to_term(st, a))))

    def sf_is_heap_obj(self, st, node, env, cmod):
        (a,) = self._args(st, node, env, cmod)
        t = self.to_term(st, a)
        return BoolTermV(AND(is_ref(t), r_of(t) >= I(self.index.first_free_id)))

    def sf_uf(self, st, node, env, cmod):
        """uf('name', a, b, ...): an uninterpreted function of Val arguments (result Val)"""
        name = node.args[0].value
        args = [self.to_term(st, self.sev(st, a, env, cmod)) for a in node.args[1:]]
        f = self.uf('spec_uf_' + name, [Val] * len(args), Val)
        return SV(f(*args))

    def sf_ghost_const(self, st, node, env, cmod):
        return SV(z3.Const('ghost_' + node.args[0].value, Val))

    def sf_none_(self, st, node, env, cmod):
        return self.py_none()

    def sf_is_exact(self, st, node, env, cmod):
        return self.sf_type_is(st, node, env, cmod)

    def sf_issubclass_of(self, st, node, env, cmod):
        a, c = self._args(st, node, env, cmod)
        t = self.to_term(st, a)
        return BoolTermV(AND(is_ref(t), self.is_subclass_term(r_of(t), c.ci)))
