# -*- coding: utf-8 -*-
"""pyvc.verify -- assemble the engine, verify units, discharge obligations."""
from __future__ import annotations

import ast
import json
import os
import sys
import time
import traceback
from typing import List

import z3

from . import smt
from .builtins import BuiltinMixin
from .builtins2 import Builtin2Mixin
from .calls import CallMixin
from .contracts import ContractMixin
from .engine import EngineBase, Obligation
from .exprs import ExprMixin
from .loops import LoopMixin
from .source import SourceIndex
from .spec import ContractIndex, SpecMixin
from .stmts import StmtMixin
from .values import CoroV, SV, Args, FuncV, Out, St, Unsupported


class Engine(ExprMixin, StmtMixin, CallMixin, BuiltinMixin, Builtin2Mixin, SpecMixin, ContractMixin, LoopMixin, EngineBase):
    def __init__(self, index, contracts, config=None):
        EngineBase.__init__(self, index, contracts, config)
        self.const_class = {}
        self.contracts_used = set()
        self.cur_unit = None
        self.unit_env = {}
        self.unit_pre = None
        self.unit_pre_len = 0
        self.call_requires_hit = set()

    def call_function(self, st, fv, args, node=None, run_async=False):
        fi = fv.fi
        if fi.qualname == 'plumpy.base.utils.call_with_super_check':
            # base/utils.call_with_super_check(f, *a, **k): calls f(*a, **k); the `_called` bookkeeping that asserts every
            # override called super() is dropped (A-SUPER), the text of the function is checked to be the modelled one
            self.check_wrapper_text(fi.qualname, ['self = wrapped.__self__', 'wrapped(*args, **kwargs)', 'assert self._called == call_count'])
            self.assumptions_used.add('A-SUPER: overrides of super_check-ed hooks call super(); the _called counter of base/utils.py is not modelled')
            if not args.pos:
                raise Unsupported('call_with_super_check()', node)
            return self.call(st, args.pos[0], Args(args.pos[1:], args.tail, args.kw, args.kwrest), node)
        if fi.is_async and not run_async:
            return self.ok(st, CoroV(fv, args, node))
        c = self.contract_for(fi, st)
        if c is not None and not (self.cur_unit is fi and getattr(st, 'depth', 0) == 0 and self.in_unit_root):
            return self.apply_contract(st, c, fi, fv, args, node)
        return self.inline(st, fv, args, node)

    def call_function_now(self, st, fv, args, node=None, root=False):
        if root:
            return self.inline(st, fv, args, node)
        return self.call_function(st, fv, args, node, run_async=True)

    def inline(self, st, fv, args, node=None):
        was_root = self.in_unit_root
        self.in_unit_root = False
        try:
            return CallMixin.inline(self, st, fv, args, node)
        finally:
            self.in_unit_root = was_root

    in_unit_root = False

    def call(self, st, fv, args, node=None):
        from .calls import WrappedV
        if isinstance(fv, WrappedV):
            return fv.k(st, args)
        return CallMixin.call(self, st, fv, args, node)


class UnitResult:
    def __init__(self, target):
        self.target = target
        self.obligations: List[Obligation] = []
        self.status = 'ok'  # ok | undecided | error
        self.message = ''
        self.paths = 0
        self.seconds = 0.0
        self.assumptions = []
        self.abstractions = []
        self.contracts_used = []


def term_to_py(m, t):
    """evaluate a Val term in a model to a small python description"""
    v = m.eval(t, model_completion=True)
    try:
        if z3.is_true(m.eval(smt.is_none(v))):
            return None
        if z3.is_true(m.eval(smt.is_bool(v))):
            return bool(z3.is_true(m.eval(smt.b_of(v))))
        if z3.is_true(m.eval(smt.is_int(v))):
            return m.eval(smt.i_of(v)).as_long()
        if z3.is_true(m.eval(smt.is_str(v))):
            return m.eval(smt.s_of(v)).as_string()
        return {'ref': m.eval(smt.r_of(v), model_completion=True).as_long()}
    except Exception:
        return str(v)


def class_name_of(eng, m, st, t):
    try:
        rid = m.eval(smt.r_of(t), model_completion=True)
        cid = m.eval(z3.Select(st.CL, rid), model_completion=True).as_long()
        ci = eng.index.class_by_id.get(cid)
        return ci.qualname if ci else f'class#{cid}'
    except Exception as e:  # noqa
        return '?'


def array_points(m, arr):
    """explicit points (index, value) of an array value in a model, plus the default (or None)"""
    pts = []
    default = None
    e = arr
    for _ in range(200):
        if z3.is_store(e):
            pts.append((e.arg(1), e.arg(2)))
            e = e.arg(0)
        elif z3.is_K(e):
            default = e.arg(0)
            break
        elif z3.is_as_array(e):
            fi = m.get_interp(z3.get_as_array_func(e))
            if fi is None:
                break
            for i in range(fi.num_entries()):
                en = fi.entry(i)
                pts.append((en.arg_value(0), en.value()))
            default = fi.else_value()
            break
        elif z3.is_quantifier(e) and e.is_lambda():
            break
        else:
            break
    return pts, default


def describe_value(eng, m, st, t, depth=0, seen=None):
    """Project a Val term of the counter-model onto a JSON-able description (objects with class and fields)"""
    seen = seen if seen is not None else set()
    v = term_to_py(m, t)
    if not isinstance(v, dict):
        return v
    rid = v['ref']
    if rid in eng.const_by_id:
        return {'const': eng.const_by_id[rid]}
    if rid in eng.index.class_by_id:
        return {'class': eng.index.class_by_id[rid].qualname}
    if rid in eng.index.func_by_id:
        return {'function': eng.index.func_by_id[rid].qualname}
    cname = class_name_of(eng, m, st, t)
    d = {'ref': rid, 'class': cname}
    if rid in seen or depth > 2:
        return d
    seen.add(rid)
    R = z3.IntVal(rid)
    if cname in ('list', 'tuple'):
        sq = m.eval(z3.Select(st.LS, R), model_completion=True)
        n = m.eval(z3.Length(sq), model_completion=True).as_long()
        d['items'] = [describe_value(eng, m, st, m.eval(sq[i], model_completion=True), depth + 1, seen) for i in range(min(n, 6))]
    elif cname in ('dict', 'set', 'frozenset'):
        items = {}
        cand = list(st.keys)
        try:
            pts, _dflt = array_points(m, m.eval(z3.Select(st.DH, R), model_completion=True))
            cand += [p[0] for p in pts]
        except Exception:  # noqa
            pass
        for k in cand:
            kv = m.eval(k, model_completion=True)
            if z3.is_true(m.eval(z3.Select(z3.Select(st.DH, R), kv), model_completion=True)):
                items[json.dumps(describe_value(eng, m, st, kv, depth + 1, seen), sort_keys=True)] = describe_value(
                    eng, m, st, m.eval(z3.Select(z3.Select(st.DV, R), kv), model_completion=True), depth + 1, seen)
        d['items'] = items
        d['len'] = m.eval(z3.Select(st.DL, R), model_completion=True).as_long()
    else:
        ci = eng.index.classes.get(cname)
        if ci is not None:
            names = set()
            for c in ci.mro:
                names |= c.inst_attrs
            fields = {}
            for n in sorted(names):
                fields[n] = describe_value(eng, m, st, m.eval(eng.hload(st, R, n), model_completion=True), depth + 1, seen)
            d['fields'] = fields
            if any(c.qualname == 'BaseException' for c in ci.mro):
                pass
    return d


def describe_counterexample(eng, ob):
    m = ob.verdict.model
    if m is None:
        return None
    pre = eng.unit_pre
    out = {'inputs': {}, 'obligation': ob.name, 'path': ' '.join(ob.st.notes[-40:])}
    for name, v in eng.unit_env.items():
        if name.startswith('__'):
            continue
        if isinstance(v, SV):
            out['inputs'][name] = describe_value(eng, m, pre, v.term)
    exc = getattr(ob, 'exc', None)
    if exc is not None and isinstance(exc, SV):
        out['escaping_exception'] = class_name_of(eng, m, ob.st, exc.term)
    return out


def discharge(eng: Engine, ob: Obligation, use_cvc5=True):
    asserts = list(eng.global_axioms) + list(ob.pc)
    if ob.want_sat:
        asserts = [smt.abstract_quantifiers(a) for a in asserts]
        v = smt.check_sat(asserts, want_model=False, use_cvc5=use_cvc5)
        ob.verdict = v
        ob.proved = v.status == 'sat'
        ob.refuted = v.status == 'unsat'
        return
    asserts.append(smt.NOT(ob.goal))
    v = smt.check_sat(asserts, want_model=True, use_cvc5=use_cvc5)
    ob.verdict = v
    ob.proved = v.status == 'unsat'
    ob.refuted = v.status == 'sat'


def verify_target(target, contract_dirs, config=None, root=None, solve=True) -> UnitResult:
    """Generate (and optionally discharge in-process) the obligations of one contracted function in a fresh engine."""
    t0 = time.time()
    smt.reset_names()
    res = UnitResult(target)
    try:
        index = SourceIndex(root)
        contracts = ContractIndex(index, contract_dirs)
        c = contracts.by_target[target]
        cfg = {'attr_types': {}, 'class_invariants': {}, 'ghost_arrays': {}}
        for mn, mc in contracts.configs.items():
            cfg['attr_types'].update(mc.get('attr_types', {}))
            cfg['class_invariants'].update(mc.get('class_invariants', {}))
            cfg['ghost_arrays'].update(mc.get('ghost_arrays', {}))
        for k_, v_ in contracts.configs.get(c.module.name, {}).items():
            if k_ not in ('attr_types', 'class_invariants', 'ghost_arrays'):
                cfg[k_] = v_
        cfg.update(config or {})
        cfg = resolve_config(index, cfg)
        eng = Engine(index, contracts, cfg)
        res.engine = eng
        if target not in index.funcs:
            res.status = 'error'
            res.message = f'contract target {target} not found in the source'
            return res
        fi = index.funcs[target]
        eng.verify_unit(fi, c)
        res.paths = eng.stats['paths']
        res.obligations = eng.obligations
        res.assumptions = sorted(eng.assumptions_used)
        res.abstractions = sorted(eng.abstractions)
        res.contracts_used = sorted(eng.contracts_used)
        if solve:
            for ob in eng.obligations:
                discharge(eng, ob)
    except Unsupported as e:
        res.status = 'undecided'
        node = getattr(e, 'node', None)
        where = f' at line {node.lineno}: {ast.unparse(node)[:100]}' if node is not None and hasattr(node, 'lineno') else ''
        res.message = f'{e}{where}'
        res.tb = traceback.format_exc()
    except Exception as e:  # engine error
        res.status = 'error'
        res.message = f'{type(e).__name__}: {e}'
        res.tb = traceback.format_exc()
    res.seconds = time.time() - t0
    return res


def obligation_assertions(eng, ob):
    asserts = list(eng.global_axioms) + list(ob.pc)
    if not ob.want_sat:
        asserts.append(smt.NOT(ob.goal))
    else:
        # vacuity guard: satisfiability of the quantifier-free part of the assumed pre-state / path (quantified facts are
        # replaced by fresh propositions: `unsat` here means the assumptions are contradictory on their own)
        asserts = [smt.abstract_quantifiers(a) for a in asserts]
    return asserts


def generate_job(job):
    """pool worker, phase 1: symbolic execution of one unit; obligations exported as SMT-LIB2 text"""
    target, contract_dirs, root = job
    r = verify_target(target, contract_dirs, None, root, solve=False)
    obs = []
    uc = getattr(getattr(r, 'engine', None), 'unit_contract', None)
    replays = {k.args[0].value: k.args[1].value for k in uc.calls('replay')} if uc is not None else {}
    default_recipe = sorted(set(replays.values()))[0] if len(set(replays.values())) == 1 else None
    for i, ob in enumerate(r.obligations):
        try:
            text = smt.to_smt2(obligation_assertions(r.engine, ob))
        except Exception as e:  # noqa
            text = None
        if getattr(ob, 'replay', None) is None and ob.kind != 'cover':
            # loop invariants, frames, call-site preconditions: the recipe named for this obligation, else the unit's only recipe
            ob.replay = replays.get(ob.name.split('::', 1)[-1], default_recipe)
        obs.append({'unit': target, 'index': i, 'name': ob.name, 'kind': ob.kind, 'detail': ob.detail, 'want_sat': ob.want_sat,
                    'path': getattr(ob, 'path', ''), 'known_id': getattr(ob, 'known_id', None), 'replay': getattr(ob, 'replay', None),
                    'expect_refuted': getattr(ob, 'expect_refuted', False), 'smt2': text})
    return {'target': target, 'status': r.status, 'message': r.message, 'paths': r.paths, 'seconds': round(r.seconds, 2),
            'obligations': obs, 'assumptions': r.assumptions, 'abstractions': r.abstractions,
            'contracts_used': r.contracts_used, 'tb': getattr(r, 'tb', '')}


def solve_job(ob):
    """pool worker, phase 2: discharge one exported obligation (z3, then cvc5 on unknown)"""
    t0 = time.time()
    text = ob.pop('smt2')
    try:
        v = smt.check_sat_text(text)
        status, backend, reason = v.status, v.backend, v.reason
    except Exception as e:  # noqa
        status, backend, reason = 'unknown', 'error', f'{type(e).__name__}: {e}'
    if ob['want_sat']:
        ob['status'] = 'proved' if status == 'sat' else ('refuted' if status == 'unsat' else 'unknown')
    else:
        ob['status'] = 'proved' if status == 'unsat' else ('refuted' if status == 'sat' else 'unknown')
    ob['backend'] = backend
    ob['reason'] = reason
    ob['seconds'] = round(time.time() - t0, 3)
    return ob


def explain_job(job):
    """pool worker, phase 3: re-generate a unit and extract counter-models for the refuted obligations"""
    target, contract_dirs, root, indices = job
    r = verify_target(target, contract_dirs, None, root, solve=False)
    out = {}
    for i in indices:
        if i >= len(r.obligations):
            continue
        ob = r.obligations[i]
        discharge(r.engine, ob, use_cvc5=False)
        d = {}
        if ob.refuted and not ob.want_sat:
            try:
                d['counterexample'] = describe_counterexample(r.engine, ob)
            except Exception as e:  # noqa
                d['counterexample'] = {'error': f'{type(e).__name__}: {e}'}
            try:
                d['model'] = str(ob.verdict.model)[:4000]
            except Exception:  # noqa
                pass
        out[i] = d
    return target, out


def run_units(targets, contract_dirs, root=None, jobs=16, progress=False):
    """three-phase parallel verification of several units -> list of unit dicts (obligations solved)"""
    import multiprocessing as mp
    ctx = mp.get_context('fork')
    with ctx.Pool(min(jobs, max(1, len(targets)))) as pool:
        units = pool.map(generate_job, [(t, contract_dirs, root) for t in targets], chunksize=1)
    flat = [ob for u in units for ob in u['obligations'] if ob.get('smt2')]
    for u in units:
        for ob in u['obligations']:
            if not ob.get('smt2'):
                ob.update(status='unknown', backend='export', reason='could not export obligation', seconds=0.0)
    if flat:
        with ctx.Pool(min(jobs, len(flat))) as pool:
            solved = pool.map(solve_job, flat, chunksize=1)
        bykey = {(o['unit'], o['index']): o for o in solved}
        for u in units:
            u['obligations'] = [bykey.get((o['unit'], o['index']), o) for o in u['obligations']]
    todo = []
    for u in units:
        idx = [o['index'] for o in u['obligations'] if o['status'] == 'refuted' and not o['want_sat']]
        if idx:
            todo.append((u['target'], contract_dirs, root, idx))
    if todo:
        with ctx.Pool(min(jobs, len(todo))) as pool:
            for target, out in pool.map(explain_job, todo, chunksize=1):
                for u in units:
                    if u['target'] == target:
                        for o in u['obligations']:
                            if o['index'] in out:
                                o.update(out[o['index']])
    return units


def resolve_config(index, cfg):
    """attr_types given as strings -> (kinds, ClassInfo, optional)"""
    out = dict(cfg)
    at = {}
    for key, spec in cfg.get('attr_types', {}).items():
        optional = False
        kinds = []
        ci = None
        for part in spec.split('|'):
            part = part.strip()
            if part == 'None':
                optional = True
            elif part in ('bool', 'int', 'str'):
                kinds.append(part)
            else:
                ci = index.classes[part]
        at[key] = (tuple(kinds), ci, optional)
    out['attr_types'] = at
    ga = {}
    for name, srt in cfg.get('ghost_arrays', {}).items():
        ga[name] = {'seq': z3.ArraySort(smt.Int, smt.SeqV), 'val': z3.ArraySort(smt.Int, smt.Val),
                    'bool': z3.ArraySort(smt.Int, smt.Bool), 'int': z3.ArraySort(smt.Int, smt.Int)}[srt]
    out['ghost_arrays'] = ga
    return out


def main(argv):
    import argparse
    ap = argparse.ArgumentParser()
    ap.add_argument('targets', nargs='*')
    ap.add_argument('--contracts', default='/verif/contracts')
    ap.add_argument('-v', action='store_true')
    ap.add_argument('--cx', type=int, default=0)
    ap.add_argument('--jobs', type=int, default=16)
    ap.add_argument('--dump', default=None)
    ap.add_argument('--vacuity', action='store_true')
    ap.add_argument('--only', default=None, help='in-process: solve only obligations whose name contains this')
    a = ap.parse_args(argv)
    if a.only:
        for t in a.targets:
            r = verify_target(t, [a.contracts], solve=False)
            print(f'== {t}: {r.status} {r.message} gen={r.seconds:.1f}s obligations={len(r.obligations)}')
            if r.status != 'ok' and hasattr(r, 'tb'):
                print(r.tb)
            for ob in r.obligations:
                if a.only in ob.name:
                    if a.dump:
                        k_ = len([x for x in os.listdir(a.dump) if x.endswith('.smt2')]) if os.path.isdir(a.dump) else 0
                        os.makedirs(a.dump, exist_ok=True)
                        open(os.path.join(a.dump, f'ob{k_}.smt2'), 'w').write(smt.to_smt2(obligation_assertions(r.engine, ob)))
                        continue
                    discharge(r.engine, ob)
                    tag = 'PROVED' if ob.proved else ('REFUTED' if ob.refuted else 'UNKNOWN')
                    vac = ''
                    if a.vacuity and ob.proved:
                        vv = smt.check_sat(list(r.engine.global_axioms) + list(ob.pc), want_model=False)
                        vac = f' [path condition: {vv.status}]'
                    print(f'   {tag} {ob.name} {ob.verdict.seconds:.2f}s {ob.verdict.backend}{vac} {ob.detail[:80]}')
                    if ob.refuted and not ob.want_sat:
                        print('      cx:', json.dumps(describe_counterexample(r.engine, ob))[:a.cx or 1500])
                    if a.v:
                        for c_ in ob.pc:
                            print('      pc:', str(c_)[:300].replace('\n', ' '))
        return 0
    index = SourceIndex()
    contracts = ContractIndex(index, [a.contracts])
    targets = a.targets or sorted(t for t, c in contracts.by_target.items() if not c.assumed)
    rc = 0
    t0 = time.time()
    units = run_units(targets, [a.contracts], None, a.jobs)
    for u in units:
        print(f"== {u['target']}: {u['status']} {u['message']} paths={u['paths']} gen={u['seconds']}s")
        if u['status'] != 'ok':
            rc = 1
            if a.v:
                print(u['tb'])
        shown = set()
        counts = {}
        for ob in u['obligations']:
            tag = {'proved': 'PROVED', 'refuted': 'REFUTED', 'unknown': 'UNKNOWN'}[ob['status']]
            if ob['want_sat']:
                tag = {'proved': 'COVERED', 'refuted': 'VACUOUS', 'unknown': 'UNKNOWN'}[ob['status']]
            if ob['expect_refuted']:
                tag = 'KNOWN:' + tag
            counts[tag] = counts.get(tag, 0) + 1
            if ob['status'] != 'proved' and not ob['expect_refuted']:
                rc = 1
            key = (ob['name'], tag)
            if key in shown and not a.v:
                continue
            shown.add(key)
            if a.v or ob['status'] != 'proved':
                print(f"   {tag:8s} {ob['name']} [{ob['kind']}] {ob['backend']} {ob['seconds']:.2f}s {ob['detail'][:100]}")
                if ob['backend'] == 'error':
                    print('      ', ob['reason'][:300])
                cx = ob.get('counterexample')
                if cx and a.cx:
                    print('      counterexample:', json.dumps(cx)[:a.cx])
                elif cx and cx.get('escaping_exception'):
                    print('      escaping exception:', cx['escaping_exception'])
        print('   ', counts)
        if a.v:
            for x in u['assumptions']:
                print('   assume:', x)
            for x in u['abstractions']:
                print('   abstract:', x)
    print(f'total {time.time() - t0:.1f}s')
    return rc


if __name__ == '__main__':
    sys.exit(main(sys.argv[1:]))
