# -*- coding: utf-8 -*-
"""pyvc.stmts -- statement execution: control flow, exceptions, loops cut at side-car invariants."""
from __future__ import annotations

import ast
from typing import List

import z3

from . import smt
from .smt import (AND, FALSE, I, NOT, OR, S, TRUE, Val, b_of, boolv, i_of, intv, is_bool, is_int, is_none, is_ref,
                  is_str, none, r_of, ref, s_of, strv)
from .values import (CoroV, IterV, SV, Args, BoolTermV, BoundV, BuiltinV, ClassV, Frame, FuncV, LambdaV, ModuleV, Out, RawV,
                     SeqTermV, St, SuperV, TupleV, Unsupported, V)


import os as _os
COVER_LINES = {int(x) for x in _os.environ.get('PYVC_COVER_LINES', '').split(',') if x}


_ca = _os.environ.get('PYVC_CHECK_AT', '')
CHECK_AT = (int(_ca.split('|', 1)[0]), _ca.split('|', 1)[1].split(';;')) if '|' in _ca else None
TRACE_LINES = {int(x) for x in _os.environ.get('PYVC_TRACE_LINES', '').split(',') if x}


class StmtMixin:
    def ex_block(self, st: St, stmts: List[ast.stmt]) -> List[Out]:
        self.stats['blocks'] = self.stats.get('blocks', 0) + 1
        if self.stats['blocks'] > self.config.get('max_blocks', 20000):
            raise Unsupported('path explosion: more than %d blocks executed in one unit' % self.config.get('max_blocks', 20000))
        outs = [Out('ok', st)]
        for s in stmts:
            nxt = []
            for o in outs:
                if o.kind != 'ok':
                    nxt.append(o)
                else:
                    nxt.extend(self.ex_stmt(o.st, s))
            outs = nxt
            if not any(o.kind == 'ok' for o in outs):
                break
        return outs

    def ex_stmt(self, st: St, s: ast.stmt) -> List[Out]:
        if TRACE_LINES and getattr(s, 'lineno', None) in TRACE_LINES:
            print(f'TRACE line {s.lineno} depth {st.depth} feasible={self.feasible(st)} pc={len(st.pc)}: {ast.unparse(s)[:70]}')
        if CHECK_AT and getattr(s, 'lineno', None) == CHECK_AT[0]:
            # dev aid: PYVC_CHECK_AT='<line>|<spec expr>;;<spec expr>': is each expression entailed at that statement?
            env = dict(self.unit_env)
            env.update(st.loc)
            for e in CHECK_AT[1]:
                try:
                    g = self.spec_bool(st.copy(), self.sev(st.copy(), ast.parse(e, mode='eval').body, env, self.unit_contract.module))
                    print(f'CHECK line {s.lineno}: {e} -> entailed={self.entails(st, g, 5000)} refutable={self.feasible(st, NOT(g))}')
                except Exception as ex:  # noqa
                    print(f'CHECK line {s.lineno}: {e} !! {type(ex).__name__} {ex}')
        if COVER_LINES and getattr(s, 'lineno', None) in COVER_LINES and st.depth <= 1:
            self.add_obligation('cover', st, TRUE, f'cover_line{s.lineno}', s, detail=ast.unparse(s)[:80])
        m = getattr(self, 'ex_' + type(s).__name__, None)
        if m is None:
            raise Unsupported(f'statement {type(s).__name__}', s)
        outs = m(st, s)
        if not outs and getattr(self, 'cur_unit', None) is not None:
            # no successor state at all: only sound if the state before the statement is unreachable -- make that an obligation
            # (guards against an engine rule or a contradictory callee contract silently dropping a path)
            self.add_obligation('post', st, FALSE, f'no_path_lost_L{getattr(s, "lineno", 0)}', s,
                                detail='statement has no successor state: ' + ast.unparse(s)[:60])
        return outs

    def as_stmt(self, outs):
        return [Out('ok', o.st) if o.kind == 'ok' else o for o in outs]

    def ex_FunctionDef(self, st, s):
        """nested function definition: a closure over a snapshot of the enclosing locals"""
        fr = st.frame
        fi = fr.fi.inner.get(s.name) if fr is not None and fr.fi is not None else None
        if fi is None:
            raise Unsupported('nested def not found in the source index', s)
        env = dict(getattr(fr, 'env', None) or {})
        env.update(st.loc)
        st = st.copy()
        fv = FuncV(fi, env, fr.cls_ctx)
        env[s.name] = fv
        st.loc[s.name] = fv
        return [Out('ok', st)]

    ex_AsyncFunctionDef = ex_FunctionDef

    def ex_Pass(self, st, s):
        return [Out('ok', st)]

    def ex_Expr(self, st, s):
        if isinstance(s.value, ast.Constant):
            return [Out('ok', st)]  # docstring
        return self.as_stmt(self.ev(st, s.value))

    def ex_Import(self, st, s):
        st = st.copy()
        for a in s.names:
            st.loc[a.asname or a.name.split('.')[0]] = ModuleV(a.name if a.asname else a.name.split('.')[0])
        return [Out('ok', st)]

    def ex_ImportFrom(self, st, s):
        return [Out('ok', st)]

    def ex_Global(self, st, s):
        raise Unsupported('global statement', s)

    def ex_Return(self, st, s):
        if s.value is None:
            return [Out('ret', st, self.py_none())]
        return [Out('ret', o.st, o.val) if o.kind == 'ok' else o for o in self.ev(st, s.value)]

    def ex_Break(self, st, s):
        return [Out('brk', st)]

    def ex_Continue(self, st, s):
        return [Out('cont', st)]

    # ------------------------------------------------------------------ assignment
    NONESCAPING_METHODS = {'pop', 'append', 'extend', 'insert', 'index', 'count', 'get', 'items', 'keys', 'values', 'setdefault',
                           'update', 'remove', 'clear', 'sort', 'reverse'}

    def local_private_container(self, fnode, name):
        """syntactic escape analysis: the local `name` is bound exactly once, to a freshly built container (str.split, a
        list/dict/set display, list()/dict()/set()), and every use is a read in place -- receiver of a container method,
        iteration, truth test, subscript, len()/sorted()/bool(), or the argument of <str>.join -- so no other code can
        reach the container: unknown code cannot change it"""
        key = (id(fnode), name)
        cache = self.__dict__.setdefault('_private_cache', {})
        if key in cache:
            return cache[key]
        parent = {}
        for n in ast.walk(fnode):
            for ch in ast.iter_child_nodes(n):
                parent[ch] = n
        stores = [n for n in ast.walk(fnode) if isinstance(n, ast.Name) and n.id == name and isinstance(n.ctx, (ast.Store, ast.Del))]
        ok = len(stores) == 1 and isinstance(parent.get(stores[0]), ast.Assign) and len(parent[stores[0]].targets) == 1
        if ok:
            v = parent[stores[0]].value
            ok = isinstance(v, (ast.List, ast.Dict, ast.Set)) or (
                isinstance(v, ast.Call) and ((isinstance(v.func, ast.Attribute) and v.func.attr == 'split')
                                             or (isinstance(v.func, ast.Name) and v.func.id in ('list', 'dict', 'set') and not v.args)))
        if ok and any(isinstance(n, (ast.FunctionDef, ast.AsyncFunctionDef, ast.Lambda)) and n is not fnode
                      and any(isinstance(m, ast.Name) and m.id == name for m in ast.walk(n)) for n in ast.walk(fnode)):
            ok = False      # captured by a closure
        if ok:
            for n in ast.walk(fnode):
                if not (isinstance(n, ast.Name) and n.id == name and isinstance(n.ctx, ast.Load)):
                    continue
                p_ = parent.get(n)
                good = False
                if isinstance(p_, ast.Attribute) and p_.value is n and p_.attr in self.NONESCAPING_METHODS \
                        and isinstance(parent.get(p_), ast.Call) and parent[p_].func is p_:
                    good = True
                elif isinstance(p_, (ast.For, ast.comprehension)) and p_.iter is n:
                    good = True
                elif isinstance(p_, (ast.If, ast.While, ast.IfExp)) and p_.test is n:
                    good = True
                elif isinstance(p_, ast.UnaryOp) and isinstance(p_.op, ast.Not):
                    good = True
                elif isinstance(p_, ast.BoolOp) and isinstance(parent.get(p_), (ast.If, ast.While)):
                    good = True
                elif isinstance(p_, ast.Subscript) and p_.value is n:
                    good = True
                elif isinstance(p_, ast.Call) and n in p_.args and isinstance(p_.func, ast.Name) and p_.func.id in ('len', 'sorted', 'bool', 'tuple'):
                    good = True
                elif isinstance(p_, ast.Call) and n in p_.args and isinstance(p_.func, ast.Attribute) and p_.func.attr == 'join':
                    good = True
                if not good:
                    ok = False
                    break
        cache[key] = ok
        return ok

    def ex_Assign(self, st, s):
        def k(st2, v):
            if len(s.targets) == 1 and isinstance(s.targets[0], ast.Name) and isinstance(v, SV) and st2.frame is not None \
                    and st2.frame.fi is not None and st2.ghost.get('OWN') is not None \
                    and self.local_private_container(st2.frame.fi.node, s.targets[0].id):
                # a container no other code can reach (syntactic escape analysis): unknown code leaves it alone
                st2 = st2.copy()
                st2.ghost['OWN'] = z3.Store(st2.ghost['OWN'], r_of(v.term), TRUE)
                self.note(f'local container `{s.targets[0].id}` of {st2.frame.fi.qualname} does not escape (syntactic analysis): not affected by unknown code')
            outs = [Out('ok', st2)]
            for tgt in s.targets:
                nxt = []
                for o in outs:
                    if o.kind != 'ok':
                        nxt.append(o)
                    else:
                        nxt.extend(self.assign(o.st, tgt, v))
                outs = nxt
            return outs

        return self.bind(self.ev(st, s.value), k)

    def ex_AnnAssign(self, st, s):
        if s.value is None:
            return [Out('ok', st)]
        return self.bind(self.ev(st, s.value), lambda st2, v: self.assign(st2, s.target, v))

    def ex_AugAssign(self, st, s):
        load = ast.copy_location(ast.BinOp(left=self._as_load(s.target), op=s.op, right=s.value), s)
        ast.fix_missing_locations(load)
        return self.bind(self.ev(st, load), lambda st2, v: self.assign(st2, s.target, v))

    def _as_load(self, t):
        import copy as _c
        n = _c.deepcopy(t)
        for sub in ast.walk(n):
            if hasattr(sub, 'ctx'):
                sub.ctx = ast.Load()
        return n

    def assign(self, st: St, tgt, v: V) -> List[Out]:
        if isinstance(tgt, ast.Name):
            st = st.copy()
            st.loc[tgt.id] = v
            return [Out('ok', st)]
        if isinstance(tgt, ast.Attribute):
            return self.bind(self.ev(st, tgt.value), lambda st2, base: self.setattr_v(st2, base, tgt.attr, v, tgt))
        if isinstance(tgt, ast.Subscript):
            return self.ev_seq(st, [tgt.value, tgt.slice], lambda st2, vals: self.setitem(st2, vals[0], vals[1], v, tgt))
        if isinstance(tgt, (ast.Tuple, ast.List)):
            return self.unpack(st, tgt, v)
        raise Unsupported('assignment target', tgt)

    def unpack(self, st, tgt, v):
        n = len(tgt.elts)
        if any(isinstance(e, ast.Starred) for e in tgt.elts):
            raise Unsupported('starred unpacking target', tgt)
        if isinstance(v, TupleV):
            if len(v.items) != n:
                return [self.raise_new(st, 'ValueError')]
            items = v.items
            outs = [Out('ok', st)]
        else:
            if not isinstance(v, SV):
                raise Unsupported(f'unpack {v!r}', tgt)
            if v.cls is None or v.cls.qualname not in ('tuple', 'list', 'tuple_namedtuple'):
                st = st.copy()
                clt = z3.Select(st.CL, r_of(v.term))
                st.assume(AND(is_ref(v.term), OR(clt == I(self.cls('tuple').id), clt == I(self.cls('list').id))))
                self.assumptions_used.add('value unpacked into a tuple target assumed to be a tuple/list')
            seq = self.list_seq(st, r_of(v.term))
            t, f = self.fork(st, z3.Length(seq) == n)
            outs = []
            if f is not None:
                outs.append(self.raise_new(f, 'ValueError'))
            if t is None:
                return outs
            items = []
            for i in range(n):
                val = seq[i]
                t.assume(self.older(t, val))
                items.append(SV(val))
            outs.append(Out('ok', t))
        for e, item in zip(tgt.elts, items):
            nxt = []
            for o in outs:
                if o.kind != 'ok':
                    nxt.append(o)
                else:
                    nxt.extend(self.assign(o.st, e, item))
            outs = nxt
        return outs

    def setattr_v(self, st: St, base: V, name: str, v: V, node=None) -> List[Out]:
        if isinstance(base, SV):
            outs = []
            t = base.term
            if base.kind is None:
                tr, fl = self.fork(st, is_ref(t))
                if fl is not None:
                    outs.append(self.raise_new(fl, 'AttributeError'))
                if tr is None:
                    return outs
                st = tr
            elif base.kind != 'ref':
                return [self.raise_new(st, 'AttributeError')]
            # property setter?
            if base.cls is not None:
                cands = self.candidate_classes(st, base)
                setters = {}
                for c in cands:
                    f = c.lookup(name)
                    sf = c.lookup_setter(name) if (f is not None and f.kind == 'property') else None
                    key = sf if sf is not None else ('ro' if (f is not None and f.kind == 'property') else None)
                    setters.setdefault(key, []).append(c)
                if len(setters) > 1:
                    clt = z3.Select(st.CL, r_of(t))
                    for key, cs in setters.items():
                        s2, _ = self.fork(st, OR(*[clt == I(c.id) for c in cs]))
                        if s2 is not None:
                            nb = SV(t, 'ref', cs[0] if len(cs) == 1 else base.cls, len(cs) == 1)
                            outs.extend(self._setattr_resolved(s2, nb, name, v, key))
                    return outs
                (key, cs), = setters.items()
                return outs + self._setattr_resolved(st, base, name, v, key)
            return outs + self._setattr_resolved(st, base, name, v, None)
        if isinstance(base, ClassV):
            # class attribute assignment (e.g. cls._spec = ...): stored in the heap under the class object
            st = st.copy()
            self.hstore(st, I(base.ci.id), name, self.to_term(st, v))
            self.note('class attribute stores go to the class object heap cell; reads of class constants use the source')
            return [Out('ok', st)]
        raise Unsupported(f'setattr on {base!r}', node)

    def _setattr_resolved(self, st, base: SV, name, v, key):
        if key == 'ro':
            return [self.raise_new(st, 'AttributeError')]
        if key is not None:
            return self.as_stmt(self.call_function(st, FuncV(key), Args([base, v])))
        st = st.copy()
        self.hstore(st, r_of(base.term), name, self.to_term(st, v))
        return [Out('ok', st)]

    def setitem(self, st: St, base: V, idx: V, v: V, node=None):
        if isinstance(base, SV) and base.cls is None:
            base = self.probe_class(st, base)
        if isinstance(base, SV):
            c = base.cls
            if c is not None and not c.external:
                f = c.lookup('__setitem__')
                if f is not None:
                    return self.as_stmt(self.call_function(st, FuncV(f), Args([base, idx, v])))
                raise Unsupported(f'item assignment on {c.qualname}', node)
            if c is None:
                st = st.copy()
                clt = z3.Select(st.CL, r_of(base.term))
                isd = AND(is_ref(base.term), clt == I(self.cls('dict').id))
                t, f = self.fork(st, isd)
                if f is not None:
                    raise Unsupported('item assignment on value not known to be a dict', node)
                st = t
            elif c.qualname != 'dict':
                raise Unsupported(f'item assignment on {c.qualname}', node)
            st = st.copy()
            self.dict_set(st, r_of(base.term), self.to_term(st, idx), self.to_term(st, v))
            return [Out('ok', st)]
        raise Unsupported(f'setitem on {base!r}', node)

    def ex_Delete(self, st, s):
        outs = [Out('ok', st)]
        for tgt in s.targets:
            nxt = []
            for o in outs:
                if o.kind != 'ok':
                    nxt.append(o)
                    continue
                if isinstance(tgt, ast.Subscript):
                    nxt.extend(self.ev_seq(o.st, [tgt.value, tgt.slice], lambda s2, vals: self.delitem(s2, vals[0], vals[1], tgt)))
                elif isinstance(tgt, ast.Name):
                    s2 = o.st.copy()
                    s2.loc.pop(tgt.id, None)
                    nxt.append(Out('ok', s2))
                else:
                    raise Unsupported('del target', tgt)
            outs = nxt
        return outs

    def delitem(self, st, base, idx, node=None):
        if isinstance(base, SV) and base.cls is None:
            base = self.probe_class(st, base)
        if isinstance(base, SV):
            c = base.cls
            if c is not None and not c.external:
                f = c.lookup('__delitem__')
                if f is not None:
                    return self.as_stmt(self.call_function(st, FuncV(f), Args([base, idx])))
            if c is None:
                st = st.copy()
                st.assume(AND(is_ref(base.term), z3.Select(st.CL, r_of(base.term)) == I(self.cls('dict').id)))
                self.assumptions_used.add('target of `del x[k]` assumed to be a dict')
            k = self.to_term(st, idx)
            r = r_of(base.term)
            self.dict_key_facts(st, r, k)
            t, f = self.fork(st, self.dict_has(st, r, k))
            outs = []
            if t is not None:
                self.dict_del(t, r, k)
                outs.append(Out('ok', t))
            if f is not None:
                outs.append(self.raise_new(f, 'KeyError'))
            return outs
        raise Unsupported(f'delitem on {base!r}', node)

    # ------------------------------------------------------------------ conditionals
    def branch(self, st: St, test: ast.expr):
        """-> (list of true-states, list of false-states, other outcomes)"""
        ts, fs, other = [], [], []
        for o in self.ev(st, test):
            if o.kind != 'ok':
                other.append(o)
                continue
            for (s2, truth) in self.ev_truth(o.st, o.val):
                if isinstance(truth, Out):
                    other.append(truth)
                    continue
                t, f = self.fork(s2, truth)
                if t is not None:
                    t = self.narrow(t, test, True)
                    t.notes = t.notes + [f'L{getattr(test, "lineno", "?")}+']
                    ts.append(t)
                if f is not None:
                    f = self.narrow(f, test, False)
                    f.notes = f.notes + [f'L{getattr(test, "lineno", "?")}-']
                    fs.append(f)
        return ts, fs, other

    def narrow(self, st: St, test, positive: bool):
        """Refine Python-side hints of local names from the branch condition just assumed (pc already has the fact)"""
        if isinstance(test, ast.UnaryOp) and isinstance(test.op, ast.Not):
            return self.narrow(st, test.operand, not positive)
        if isinstance(test, ast.BoolOp):
            if isinstance(test.op, ast.And) and positive or isinstance(test.op, ast.Or) and not positive:
                for v in test.values:
                    st = self.narrow(st, v, positive)
            return st
        if isinstance(test, ast.Call) and isinstance(test.func, ast.Name) and test.func.id == 'isinstance' and positive \
                and len(test.args) == 2 and isinstance(test.args[0], ast.Name) and test.args[0].id in st.loc:
            v = st.loc[test.args[0].id]
            if isinstance(v, SV):
                try:
                    outs = self.ev(st, test.args[1])
                except Unsupported:
                    return st
                if len(outs) == 1 and isinstance(outs[0].val, ClassV):
                    ci = outs[0].val.ci
                    if ci.qualname in ('str', 'int', 'bool'):
                        nv = SV(v.term, ci.qualname)
                    elif v.cls is None or (ci in self.index.subclasses(v.cls)):
                        nv = SV(v.term, 'ref', ci)
                    else:
                        nv = v
                    st = st.copy()
                    st.loc[test.args[0].id] = nv
                    self.assume_class_invariants(st, nv)
            return st
        if isinstance(test, ast.Compare) and len(test.ops) == 1 and isinstance(test.left, ast.Name) and test.left.id in st.loc \
                and isinstance(test.comparators[0], ast.Constant) and test.comparators[0].value is None:
            v = st.loc[test.left.id]
            if isinstance(v, SV) and v.kind is None:
                isnone = isinstance(test.ops[0], ast.Is) == positive
                if isinstance(test.ops[0], (ast.Is, ast.IsNot)):
                    st = st.copy()
                    if isnone:
                        st.loc[test.left.id] = SV(v.term, 'none')
                    elif v.cls is not None:
                        st.loc[test.left.id] = SV(v.term, 'ref', v.cls, v.exact)
            return st
        return st

    def ex_If(self, st, s):
        ts, fs, outs = self.branch(st, s.test)
        for t in ts:
            outs.extend(self.ex_block(t, s.body))
        for f in fs:
            outs.extend(self.ex_block(f, s.orelse) if s.orelse else [Out('ok', f)])
        return outs

    def ex_Assert(self, st, s):
        ts, fs, outs = self.branch(st, s.test)
        for t in ts:
            outs.append(Out('ok', t))
        for f in fs:
            outs.append(self.raise_new(f, 'AssertionError'))
        return outs

    # ------------------------------------------------------------------ exceptions
    def ex_Raise(self, st, s):
        if s.exc is None:
            if st.frame is None or st.frame.exc is None:
                raise Unsupported('bare raise outside handler', s)
            return [Out('raise', st, st.frame.exc)]

        def k(st2, v):
            if isinstance(v, ClassV):
                outs = self.call(st2, v, Args())
                return [Out('raise', o.st, o.val) if o.kind == 'ok' else o for o in outs]
            return [Out('raise', st2, v)]

        outs = self.bind(self.ev(st, s.exc), k)
        return outs

    def exc_is(self, st: St, exc: V, ci):
        """True / False / z3 Bool: isinstance(exc, ci)"""
        t = smt.simp(self.isinstance_term(st, exc, ci))
        if z3.is_true(t):
            return True
        if z3.is_false(t):
            return False
        return t

    def handler_classes(self, st, h: ast.ExceptHandler):
        if h.type is None:
            return [self.cls('BaseException')]
        nodes = h.type.elts if isinstance(h.type, ast.Tuple) else [h.type]
        res = []
        for n in nodes:
            outs = self.ev(st, n)
            if len(outs) != 1 or not isinstance(outs[0].val, ClassV):
                raise Unsupported('exception handler type', n)
            res.append(outs[0].val.ci)
        return res

    def ex_Try(self, st, s):
        body_outs = self.ex_block(st, s.body)
        results = []
        for o in body_outs:
            if o.kind == 'ok':
                results.extend(self.ex_block(o.st, s.orelse) if s.orelse else [o])
            elif o.kind == 'raise' and s.handlers:
                results.extend(self.dispatch_handlers(o.st, o.val, s.handlers))
            else:
                results.append(o)
        if not s.finalbody:
            return results
        final = []
        for o in results:
            fouts = self.ex_block(o.st, s.finalbody)
            for fo in fouts:
                if fo.kind == 'ok':
                    final.append(Out(o.kind, fo.st, o.val))
                else:
                    final.append(fo)  # finally overrides
        return final

    def dispatch_handlers(self, st: St, exc: V, handlers) -> List[Out]:
        outs = []
        cur = st
        for h in handlers:
            if cur is None:
                break
            classes = self.handler_classes(cur, h)
            cond = OR(*[self.isinstance_term(cur, exc, c) for c in classes])
            t, f = self.fork(cur, cond)
            if t is not None:
                t = t.copy()
                if h.name:
                    ev = exc
                    if isinstance(exc, SV) and len(classes) == 1 and (exc.cls is None or classes[0] in self.index.subclasses(exc.cls)):
                        ev = SV(exc.term, 'ref', classes[0] if exc.cls is None or exc.cls in classes[0].mro[1:] or exc.cls is classes[0] or classes[0] in exc.cls.mro and False else exc.cls, exc.exact)
                        if exc.cls is not None and classes[0] in exc.cls.mro:
                            ev = exc
                    t.loc[h.name] = ev
                saved_frame = t.frame
                fr = Frame(saved_frame.fi, saved_frame.selfv, saved_frame.cls_ctx, exc, saved_frame.module) if saved_frame else Frame(None, exc=exc)
                if saved_frame is not None and hasattr(saved_frame, 'env'):
                    fr.env = saved_frame.env
                t.frame = fr
                for o in self.ex_block(t, h.body):
                    o.st.frame = saved_frame if o.st.frame is fr else o.st.frame
                    if _os.environ.get('PYVC_TRACE_UNCAUGHT') and o.kind == 'raise':
                        print('HANDLER at line', h.lineno, 'raised', o.val)
                    outs.append(o)
            cur = f
        if cur is not None:
            if _os.environ.get('PYVC_TRACE_UNCAUGHT'):
                print('UNCAUGHT by handlers at line', handlers[0].lineno, 'exc', exc, 'classes', [ast.unparse(h.type) if h.type else '*' for h in handlers])
            outs.append(Out('raise', cur, exc))
        return outs

    # ------------------------------------------------------------------ with
    def ex_With(self, st, s):
        if len(s.items) != 1:
            raise Unsupported('multi-item with', s)
        item = s.items[0]
        return self.bind(self.ev(st, item.context_expr), lambda st2, cm: self.with_cm(st2, cm, item, s))

    def with_cm(self, st, cm: V, item, s):
        # context managers are represented by CtxV produced by builtins/contextmanager functions
        from .calls import CtxV
        if not isinstance(cm, CtxV):
            raise Unsupported(f'with on {cm!r}', s)
        outs = []
        for eo in cm.enter(self, st):
            if eo.kind != 'ok':
                outs.append(eo)
                continue
            s2 = eo.st
            if item.optional_vars is not None:
                sub = self.assign(s2, item.optional_vars, eo.val)
                assert len(sub) == 1
                s2 = sub[0].st
            for bo in self.ex_block(s2, s.body):
                try:
                    outs.extend(cm.exit(self, bo, eo.token))
                except TypeError:
                    outs.extend(cm.exit(self, bo))
        return outs

    # ------------------------------------------------------------------ loops
    def loop_ordinal(self, node, fi=None):
        fi = fi or self.loop_owner or self.cur_unit
        loops = getattr(fi, '_loops', None)
        if loops is None:
            loops = [n for n in ast.walk(fi.node) if isinstance(n, (ast.For, ast.While, ast.ListComp, ast.DictComp, ast.GeneratorExp, ast.SetComp))]
            loops.sort(key=lambda n: (n.lineno, n.col_offset))
            fi._loops = loops
        return loops.index(node)

    def assigned_names(self, stmts):
        names = set()
        for s in stmts:
            for n in ast.walk(s):
                if isinstance(n, ast.Name) and isinstance(n.ctx, (ast.Store, ast.Del)):
                    names.add(n.id)
        return names

    loop_owner = None

    def ex_For(self, st, s):
        if s.orelse:
            raise Unsupported('for-else', s)
        self.loop_owner = st.frame.fi if st.frame is not None and st.frame.fi is not None else self.cur_unit
        return self.bind(self.ev(st, s.iter), lambda st2, it: self.for_over(st2, it, s))

    def for_over(self, st: St, it: V, s: ast.For):
        fi = self.loop_owner or self.cur_unit
        inv = self.find_loop_spec(fi, s)
        # concrete iteration: tuples of known length
        if isinstance(it, TupleV):
            if inv is not None:
                return self.for_concrete_inv(st, it.items, s, inv)
            return self.unroll(st, it.items, s)
        if isinstance(it, IterV):
            if it.kind == 'concrete':
                if inv is not None:
                    return self.for_concrete_inv(st, it.items, s, inv)
                return self.unroll(st, it.items, s)
            if inv is None:
                raise Unsupported(f'loop #{self.loop_ordinal(s)} in {fi.qualname} over symbolic collection needs a loop invariant', s)
            if it.kind == 'seq':
                return self.for_seq(st, it.seq, s, inv, it)
            if it.kind in ('dictkeys', 'dictitems', 'dictvalues'):
                return self.for_dict(st, it, s, inv)
        if isinstance(it, SV):
            c = it.cls
            if c is not None and not c.external and c.lookup('__iter__') is not None:
                outs = self.call_function(st, FuncV(c.lookup('__iter__')), Args([it]))
                return self.bind(outs, lambda s2, v: self.for_over(s2, v, s))
            if c is not None and not c.external and c.lookup('__getitem__') is not None and c.lookup('__len__') is not None:
                # Sequence protocol: iterate by index until IndexError; handled as seq of calls -> needs invariant
                return self.for_getitem(st, it, s, inv)
            if c is not None and c.qualname in ('list', 'tuple'):
                seq_ = self.list_seq(st, r_of(it.term))
                if self.entails(st, z3.Length(seq_) == 0, 1500):
                    # an empty sequence: the body never runs (no invariant needed, nothing forgotten)
                    return self.ex_block(st, s.orelse) if s.orelse else [Out('ok', st)]
                if inv is None:
                    raise Unsupported(f'loop #{self.loop_ordinal(s)} in {fi.qualname} needs a loop invariant', s)
                return self.for_seq(st, seq_, s, inv, None)
            if c is not None and c.qualname in ('dict', 'set', 'frozenset'):
                if inv is None:
                    raise Unsupported(f'loop #{self.loop_ordinal(s)} in {fi.qualname} needs a loop invariant', s)
                return self.for_dict(st, IterV('dictkeys', d=it), s, inv)
            if c is None:
                t = it.term
                clt = z3.Select(st.CL, r_of(t))
                outs = []
                s1, rest = self.fork(st, AND(is_ref(t), OR(clt == I(self.cls('list').id), clt == I(self.cls('tuple').id))))
                if s1 is not None:
                    if inv is None:
                        raise Unsupported(f'loop #{self.loop_ordinal(s)} in {fi.qualname} needs a loop invariant', s)
                    outs.extend(self.for_seq(s1, self.list_seq(s1, r_of(t)), s, inv, None))
                if rest is not None:
                    s2, rest2 = self.fork(rest, AND(is_ref(t), OR(*[clt == I(self.cls(q).id) for q in ('dict', 'set', 'frozenset')])))
                    if s2 is not None:
                        if inv is None:
                            raise Unsupported(f'loop #{self.loop_ordinal(s)} in {fi.qualname} needs a loop invariant', s)
                        outs.extend(self.for_dict(s2, IterV('dictkeys', d=SV(t, 'ref', self.cls('dict'))), s, inv))
                    if rest2 is not None:
                        raise Unsupported(f'for over value of unknown class {it!r}', s)
                return outs
        raise Unsupported(f'for over {it!r}', s)

    def unroll(self, st, items, s):
        outs = []
        cur = [st]
        for item in items:
            nxt = []
            for c in cur:
                for a in self.assign(c, s.target, item):
                    if a.kind != 'ok':
                        outs.append(a)
                        continue
                    for o in self.ex_block(a.st, s.body):
                        if o.kind in ('ok', 'cont'):
                            nxt.append(o.st)
                        elif o.kind == 'brk':
                            outs.append(Out('ok', o.st))
                        else:
                            outs.append(o)
            cur = nxt
        outs.extend(Out('ok', c) for c in cur)
        return outs

    def ex_While(self, st, s):
        if s.orelse:
            raise Unsupported('while-else', s)
        fi = st.frame.fi if st.frame is not None and st.frame.fi is not None else self.cur_unit
        self.loop_owner = fi
        inv = self.find_loop_spec(fi, s)
        if inv is None:
            raise Unsupported(f'while loop #{self.loop_ordinal(s)} in {fi.qualname} needs a loop invariant', s)
        return self.while_inv(st, s, inv)
