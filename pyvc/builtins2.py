# -*- coding: utf-8 -*-
"""pyvc.builtins2 -- dict/list/set methods, user calls (unknown code), awaits, context managers."""
from __future__ import annotations

import ast
from typing import List

import z3

from . import smt
from .calls import CtxV, KwDictV, PartialV, WrappedV
from .smt import (AND, FALSE, I, NOT, OR, S, TRUE, Val, b_of, boolv, i_of, intv, is_bool, is_int, is_none, is_ref,
                  is_str, none, r_of, ref, s_of, strv)
from .values import (CoroV, IterV, SV, Args, BoolTermV, BoundV, BuiltinV, ClassV, Frame, FuncV, LambdaV, ModuleV, Out, RawV,
                     SeqTermV, St, SuperV, TupleV, Unsupported, V)


class Builtin2Mixin:
    # ------------------------------------------------------------------ dict methods
    def _d(self, st, selfv):
        if isinstance(selfv, KwDictV):
            selfv = self.materialise_kwdict(st, selfv)
        return selfv, r_of(selfv.term)

    def bm_dict_get(self, st, selfv, args, node):
        d, r = self._d(st, selfv)
        if len(args.pos) not in (1, 2):
            raise Unsupported('dict.get arity', node)
        k = self.to_term(st, args.pos[0])
        dflt = args.pos[1] if len(args.pos) == 2 else self.py_none()
        self.dict_key_facts(st, r, k)
        t, f = self.fork(st, self.dict_has(st, r, k))
        outs = []
        if t is not None:
            val = self.dict_get(t, r, k)
            t.assume(self.older(t, val))
            outs.append(Out('ok', t, SV(val)))
        if f is not None:
            outs.append(Out('ok', f, dflt))
        return outs

    def bm_dict_setdefault(self, st, selfv, args, node):
        d, r = self._d(st, selfv)
        k = self.to_term(st, args.pos[0])
        dflt = args.pos[1] if len(args.pos) == 2 else self.py_none()
        self.dict_key_facts(st, r, k)
        t, f = self.fork(st, self.dict_has(st, r, k))
        outs = []
        if t is not None:
            val = self.dict_get(t, r, k)
            t.assume(self.older(t, val))
            outs.append(Out('ok', t, SV(val)))
        if f is not None:
            f = f.copy()
            dv = self.to_term(f, dflt)
            self.dict_set(f, r, k, dv)
            outs.append(Out('ok', f, dflt if isinstance(dflt, SV) else SV(dv)))
        return outs

    def bm_dict_pop(self, st, selfv, args, node):
        d, r = self._d(st, selfv)
        k = self.to_term(st, args.pos[0])
        self.dict_key_facts(st, r, k)
        t, f = self.fork(st, self.dict_has(st, r, k))
        outs = []
        if t is not None:
            t = t.copy()
            val = self.dict_get(t, r, k)
            t.assume(self.older(t, val))
            self.dict_del(t, r, k)
            outs.append(Out('ok', t, SV(val)))
        if f is not None:
            if len(args.pos) == 2:
                outs.append(Out('ok', f, args.pos[1]))
            else:
                outs.append(self.raise_new(f, 'KeyError'))
        return outs

    def bm_dict_items(self, st, selfv, args, node):
        d, r = self._d(st, selfv)
        return self.ok(st, IterV('dictitems', d=d))

    def bm_dict_keys(self, st, selfv, args, node):
        d, r = self._d(st, selfv)
        return self.ok(st, IterV('dictkeys', d=d))

    def bm_dict_values(self, st, selfv, args, node):
        d, r = self._d(st, selfv)
        return self.ok(st, IterV('dictvalues', d=d))

    def bm_dict___iter__(self, st, selfv, args, node):
        d, r = self._d(st, selfv)
        return self.ok(st, IterV('dictkeys', d=d))

    def bm_dict___contains__(self, st, selfv, args, node):
        d, r = self._d(st, selfv)
        return self.contains(st, SV(d.term, 'ref', self.cls('dict'), True), args.pos[0], node)

    def bm_dict_copy(self, st, selfv, args, node):
        d, r = self._d(st, selfv)
        return self._dict_copy(st, d)

    def bm_dict_update(self, st, selfv, args, node):
        d, r = self._d(st, selfv)
        st = st.copy()
        if len(args.pos) == 1 and not args.kw:
            src = args.pos[0]
            if isinstance(src, KwDictV):
                src = self.materialise_kwdict(st, src)
            if isinstance(src, SV):
                def k(s2, m):
                    s2 = s2.copy()
                    self.dict_merge(s2, r, r_of(m.term))
                    return self.ok(s2, self.py_none())
                return self.bind(self.mapping_view(st, src, node), k)
        if not args.pos:
            for key, x in args.kw.items():
                self.dict_set(st, r, strv(S(key)), self.to_term(st, x))
            if args.kwrest is not None:
                self.dict_merge(st, r, r_of(args.kwrest.term))
            return self.ok(st, self.py_none())
        raise Unsupported('dict.update shape', node)

    def dict_merge(self, st, r, rr):
        """d[r].update(d[rr]) extensionally"""
        nh = smt.fresh('mh', smt.HasMap)
        nv = smt.fresh('mv', smt.ValMap)
        nl = smt.fresh('ml', smt.Int)
        k = smt.fresh('k', Val)
        h1, h2 = z3.Select(st.DH, r), z3.Select(st.DH, rr)
        v1, v2 = z3.Select(st.DV, r), z3.Select(st.DV, rr)
        st.assume(z3.ForAll([k], z3.Select(nh, k) == OR(z3.Select(h1, k), z3.Select(h2, k))))
        st.assume(z3.ForAll([k], z3.Select(nv, k) == z3.If(z3.Select(h2, k), z3.Select(v2, k), z3.Select(v1, k))))
        st.assume(nl >= self.dict_len(st, r))
        st.assume(nl >= self.dict_len(st, rr))
        st.assume(nl <= self.dict_len(st, r) + self.dict_len(st, rr))
        st.assume(z3.Implies(self.dict_len(st, rr) == 0, AND(nh == h1, nl == self.dict_len(st, r))))
        st.assume(z3.Implies(self.dict_len(st, r) == 0, AND(nh == h2, nv == v2, nl == self.dict_len(st, rr))))
        st.DH = z3.Store(st.DH, r, nh)
        st.DV = z3.Store(st.DV, r, nv)
        st.DL = z3.Store(st.DL, r, nl)

    def bm_dict_clear(self, st, selfv, args, node):
        d, r = self._d(st, selfv)
        st = st.copy()
        st.DH = z3.Store(st.DH, r, z3.K(Val, FALSE))
        st.DL = z3.Store(st.DL, r, I(0))
        return self.ok(st, self.py_none())

    # set methods (sets share the dict-has representation)
    def bm_set_add(self, st, selfv, args, node):
        st = st.copy()
        self.dict_set(st, r_of(selfv.term), self.to_term(st, args.pos[0]), none)
        return self.ok(st, self.py_none())

    def bm_set_discard(self, st, selfv, args, node):
        st = st.copy()
        k = self.to_term(st, args.pos[0])
        self.dict_key_facts(st, r_of(selfv.term), k)
        self.dict_del(st, r_of(selfv.term), k)
        return self.ok(st, self.py_none())

    def bm_set_clear(self, st, selfv, args, node):
        return self.bm_dict_clear(st, selfv, args, node)

    def bm_set_update(self, st, selfv, args, node):
        st = st.copy()
        r = r_of(selfv.term)
        if len(args.pos) == 1 and isinstance(args.pos[0], TupleV):
            for x in args.pos[0].items:
                self.dict_set(st, r, self.to_term(st, x), none)
            return self.ok(st, self.py_none())
        if len(args.pos) == 1 and isinstance(args.pos[0], SV):
            src = args.pos[0]
            if src.cls is not None and src.cls.qualname in ('set', 'frozenset', 'dict'):
                self.dict_merge(st, r, r_of(src.term))
                return self.ok(st, self.py_none())
            if src.cls is not None and src.cls.qualname in ('tuple', 'list'):
                seq = self.list_seq(st, r_of(src.term))
                nh = smt.fresh('uh', smt.HasMap)
                k = smt.fresh('k', Val)
                h1 = z3.Select(st.DH, r)
                st.assume(z3.ForAll([k], z3.Select(nh, k) == OR(z3.Select(h1, k), z3.Contains(seq, z3.Unit(k)))))
                nl = smt.fresh('ul', smt.Int)
                st.assume(AND(nl >= self.dict_len(st, r), nl <= self.dict_len(st, r) + z3.Length(seq)))
                st.DH = z3.Store(st.DH, r, nh)
                st.DL = z3.Store(st.DL, r, nl)
                return self.ok(st, self.py_none())
        raise Unsupported('set.update shape', node)

    # ------------------------------------------------------------------ list methods
    def bm_list_append(self, st, selfv, args, node):
        st = st.copy()
        r = r_of(selfv.term)
        (x,) = self.one_pos(args, 1, 'append')
        old = self.list_seq(st, r)
        xt = self.to_term(st, x)
        new = z3.Concat(old, z3.Unit(xt))
        st.LS = z3.Store(st.LS, r, new)
        # element-wise view of the snoc (instances the sequence solver does not derive under quantifiers)
        i = smt.fresh('ai', smt.Int)
        st.assume(z3.Length(new) == z3.Length(old) + 1)
        st.assume(new[z3.Length(old)] == xt)
        body = z3.Implies(AND(i >= 0, i < z3.Length(old)), new[i] == old[i])
        st.assume(z3.ForAll([i], body))
        return self.ok(st, self.py_none())

    def bm_list_extend(self, st, selfv, args, node):
        st = st.copy()
        r = r_of(selfv.term)
        (x,) = self.one_pos(args, 1, 'extend')
        st.LS = z3.Store(st.LS, r, z3.Concat(self.list_seq(st, r), self.seq_view(st, x)))
        return self.ok(st, self.py_none())

    def bm_list_pop(self, st, selfv, args, node):
        r = r_of(selfv.term)
        seq = self.list_seq(st, r)
        ln = z3.Length(seq)
        outs = []
        t, f = self.fork(st, ln >= 1)
        if f is not None:
            outs.append(self.raise_new(f, 'IndexError'))
        if t is not None:
            t = t.copy()
            if not args.pos:
                val = seq[ln - 1]
                t.LS = z3.Store(t.LS, r, z3.SubSeq(seq, 0, ln - 1))
            else:
                ci = self.const_int(args.pos[0])
                if ci != 0:
                    raise Unsupported('list.pop(i) for i != 0', node)
                val = seq[0]
                t.LS = z3.Store(t.LS, r, z3.SubSeq(seq, 1, ln - 1))
            t.assume(self.older(t, val))
            outs.append(Out('ok', t, SV(val)))
        return outs

    def bm_list_copy(self, st, selfv, args, node):
        st = st.copy()
        return self.ok(st, self.new_list(st, self.list_seq(st, r_of(selfv.term))))

    def bm_list_remove(self, st, selfv, args, node):
        r = r_of(selfv.term)
        seq = self.list_seq(st, r)
        x = self.to_term(st, args.pos[0])
        t, f = self.fork(st, z3.Contains(seq, z3.Unit(x)))
        outs = []
        if f is not None:
            outs.append(self.raise_new(f, 'ValueError'))
        if t is not None:
            t = t.copy()
            i = z3.IndexOf(seq, z3.Unit(x), 0)
            t.LS = z3.Store(t.LS, r, z3.Concat(z3.SubSeq(seq, 0, i), z3.SubSeq(seq, i + 1, z3.Length(seq) - i - 1)))
            outs.append(Out('ok', t, self.py_none()))
        return outs

    def bm_BaseException_with_traceback(self, st, selfv, args, node):
        """exc.with_traceback(tb) returns exc itself (the traceback attribute is not modelled)"""
        return self.ok(st, selfv)

    def bm_list___iter__(self, st, selfv, args, node):
        return self.ok(st, IterV('seq', seq=self.list_seq(st, r_of(selfv.term))))

    bm_tuple___iter__ = bm_list___iter__

    # ------------------------------------------------------------------ user calls
    def user_exception(self, st: St):
        """A fresh exception object of an arbitrary Exception subclass (user code may raise anything)"""
        st.A = st.A  # allocation below
        r = st.A
        st.A = st.A + 1
        cid = smt.fresh('ucls', smt.Int)
        st.CL = z3.Store(st.CL, r, cid)
        base = 'BaseException' if self.config.get('user_raises_base_exception') else 'Exception'
        # (units that must stay correct when the called code is aborted by KeyboardInterrupt / CancelledError / SystemExit opt in)
        st.assume(self.is_subclass_term(cid, self.cls(base)))
        return SV(ref(r), 'ref', self.cls(base))

    def record_user_call(self, st: St, fterm, args: Args):
        ev = self.alloc(st, self.cls('UserCallEvent'))
        r = r_of(ev.term)
        self.hstore(st, r, 'fn', fterm)
        if args.tail is None:
            tup = self.to_term(st, TupleV(args.pos))
        else:
            seq = args.tail if not args.pos else z3.Concat(self.seq_of_terms([self.to_term(st, x) for x in args.pos]), args.tail)
            o = self.alloc(st, self.cls('tuple'))
            st.LS = z3.Store(st.LS, r_of(o.term), seq)
            tup = o.term
        self.hstore(st, r, 'args', tup)
        kd = self.materialise_kwdict(st, KwDictV(args.kw, args.kwrest))
        self.hstore(st, r, 'kwargs', kd.term)
        self.hstore(st, r, 'idx', intv(z3.Length(st.TR)))   # ghost: position of this event in the trace
        self.hstore(st, r, 'raised', none)
        self.hstore(st, r, 'awaited', none)
        self.hstore(st, r, 'result', none)
        self.hstore(st, r, 'recv', none)
        self.hstore(st, r, 'was_awaited', boolv(FALSE))
        self.hstore(st, r, 'meth', none)
        st.ghost['OWN'] = z3.Store(st.ghost['OWN'], r_of(kd.term), TRUE)
        snap = self.config.get('user_call_snapshot')
        if snap:
            # a frozen copy of a sequence-valued specification expression at the moment of the call (e.g. the process stack)
            import ast as _ast
            val = self.sev(st, _ast.parse(snap, mode='eval').body, {'__target_module__': self.cur_unit.module if self.cur_unit else None},
                           self.unit_contract.module if self.unit_contract is not None else None)
            o = self.alloc(st, self.cls('tuple'))
            st.LS = z3.Store(st.LS, r_of(o.term), self.spec_seq(st, val))
            self.hstore(st, r, 'snapshot', o.term)
            snap2 = self.config.get('user_call_snapshot2')
            if snap2:
                val2 = self.sev(st, _ast.parse(snap2, mode='eval').body,
                                {'__target_module__': self.cur_unit.module if self.cur_unit else None, '__old__': self.unit_pre},
                                self.unit_contract.module if self.unit_contract is not None else None)
                o2 = self.alloc(st, self.cls('tuple'))
                st.LS = z3.Store(st.LS, r_of(o2.term), self.spec_seq(st, val2))
                self.hstore(st, r, 'snapshot2', o2.term)
        oldtr = st.TR
        st.TR = z3.Concat(st.TR, z3.Unit(ev.term))
        # element-wise / prefix view of the extended trace (instances the sequence solver does not find under quantifiers)
        j = smt.fresh('tj', smt.Int)
        st.assume(z3.Length(st.TR) == z3.Length(oldtr) + 1)
        st.assume(st.TR[z3.Length(oldtr)] == ev.term)
        st.assume(z3.ForAll([j], z3.Implies(AND(j >= 0, j < z3.Length(oldtr)), st.TR[j] == oldtr[j])))
        return ev

    def havoc_user(self, st: St):
        """Effect of unknown user code on the heap, according to the unit's policy."""
        pol = self.config.get('user_havoc', 'all')
        if pol == 'none':
            return
        protected = [self.cls(q) for q in self.config.get('protected_classes', [])] + [self.cls('UserCallEvent'), self.cls('function'), self.cls('type'), self.cls('method')]
        oldH, oldDH, oldDV, oldDL, oldLS = st.H, st.DH, st.DV, st.DL, st.LS
        tag = smt._cnt[0] = smt._cnt[0] + 1
        fH = z3.Const(f'H!u{tag}', smt.HeapSort)
        fDH = z3.Const(f'DH!u{tag}', smt.DHSort)
        fDV = z3.Const(f'DV!u{tag}', smt.DVSort)
        fDL = z3.Const(f'DL!u{tag}', smt.DLSort)
        fLS = z3.Const(f'LS!u{tag}', smt.LSSort)
        A0 = st.A
        st.A = z3.Const(f'A!u{tag}', smt.Int)
        st.assume(st.A >= A0)
        r = z3.Const('r!q', smt.Int)
        ids = sorted({c.id for p in protected for c in self.index.subclasses(p)})
        # the new heap is given as a lambda: protected objects / owned containers / tuples keep their contents
        if ids:
            prot = OR(*[z3.Select(st.CL, r) == I(i) for i in ids])
            kept = z3.Select(oldH, r)
            unprot = self.config.get('unprotected_attrs', [])
            for a in unprot:
                # attributes that other actions of the system (control requests arriving while unknown code runs or the
                # coroutine is suspended) do write, through plumpy's own methods: arbitrary afterwards
                kept = z3.Store(kept, S(a), z3.Select(z3.Select(fH, r), S(a)))
            st.H = z3.Lambda([r], z3.If(prot, kept, z3.Select(fH, r)))
            if unprot:
                self.assumptions_used.add('rely: while unknown code runs or the coroutine is suspended, control requests may arrive; '
                                          'the attributes ' + ', '.join(unprot) + ' of protected objects are arbitrary afterwards')
        else:
            st.H = fH
        own = st.ghost.get('OWN')
        keep = z3.Select(own, r) if own is not None else FALSE
        tup = z3.Select(st.CL, r) == I(self.cls('tuple').id)
        st.DH = z3.Lambda([r], z3.If(keep, z3.Select(oldDH, r), z3.Select(fDH, r)))
        st.DV = z3.Lambda([r], z3.If(keep, z3.Select(oldDV, r), z3.Select(fDV, r)))
        st.DL = z3.Lambda([r], z3.If(keep, z3.Select(oldDL, r), z3.Select(fDL, r)))
        st.LS = z3.Lambda([r], z3.If(OR(keep, tup), z3.Select(oldLS, r), z3.Select(fLS, r)))
        self.assumptions_used.add('A-PRIV: user code does not write attributes of plumpy-internal objects ('
                                  + ', '.join(p.name for p in protected) + ') nor containers owned by them')

    def user_call(self, st: St, fv: SV, args: Args, node=None) -> List[Out]:
        self.stats['user_calls'] += 1
        st = st.copy()
        hook = self.config.get('user_call_hook')
        ev = self.record_user_call(st, fv.term, args)
        if getattr(fv, 'origin', None) is not None:
            # `receiver.name(...)` on an object of unknown class: the event also says which method of which object was called
            self.hstore(st, r_of(ev.term), 'recv', fv.origin[0].term)
            self.hstore(st, r_of(ev.term), 'meth', strv(S(fv.origin[1])))
        self.havoc_user(st)
        outs = []
        res = SV(smt.fresh('ures', Val), tag='user_result')
        st.assume(self.older(st, res.term))
        if self.config.get('user_results_foreign'):
            # A-FOREIGN (per unit): objects handed out by user code are instances of user-defined classes, not of plumpy's own
            st.assume(z3.Implies(is_ref(res.term), z3.Select(st.CL, r_of(res.term)) >= I(self.index.first_free_id)))
            res.tag = 'user_result'
            self.assumptions_used.add('A-FOREIGN: objects returned by user code are instances of user-defined classes; their '
                                      'attributes (properties included) are read from the heap')
        self.hstore(st, r_of(st.TR[z3.Length(st.TR) - 1]), 'result', res.term)
        if self.config.get('user_raises', True):
            s2 = st.copy()
            e = self.user_exception(s2)
            self.hstore(s2, r_of(s2.TR[z3.Length(s2.TR) - 1]), 'raised', e.term)
            outs.append(Out('raise', s2, e))
        outs.append(Out('ok', st, res))
        return outs

    # ------------------------------------------------------------------ await
    def await_value(self, st: St, v: V, node=None) -> List[Out]:
        if isinstance(v, CoroV):
            return self.run_coro(st, v, node)
        if isinstance(v, SV):
            return self.await_sv(st, v, node)
        raise Unsupported(f'await {v!r}', node)

    def run_coro(self, st, c: CoroV, node=None):
        fv = c.fv
        if isinstance(fv, FuncV):
            return self.call_function_now(st, fv, c.args, node)
        if isinstance(fv, WrappedAsync):
            return fv.run(st, c.args)
        raise Unsupported('await of coroutine of unknown function', node)

    def await_sv(self, st, v: SV, node=None):
        """await <symbolic value>: a future of a modelled class, or a user awaitable"""
        fut = self.cls('asyncio.Future')
        if v.tag == 'user_result':
            return self.user_await(st, v, node)
        isf = smt.simp(self.isinstance_term(st, v, fut))
        outs = []
        t, f = self.fork(st, isf)
        if t is not None:
            outs.extend(self.await_future(t, SV(v.term, 'ref', v.cls if v.cls is not None and fut in v.cls.mro else fut), node))
        if f is not None:
            # awaiting the result of a user call: the user coroutine runs here; already havocked at the call
            outs.extend(self.user_await(f, v, node))
        return outs

    def user_await(self, st, v, node=None):
        st = st.copy()
        self.havoc_user(st)
        outs = []
        res = SV(smt.fresh('aw', Val))
        st.assume(self.older(st, res.term))
        if v.tag == 'user_result':
            # the awaited outcome is recorded on the event of the user call that produced the awaitable
            evr = r_of(st.TR[z3.Length(st.TR) - 1])
            self.hstore(st, evr, 'awaited', res.term)
            self.hstore(st, evr, 'was_awaited', boolv(TRUE))
        self.assume_class_invariants(st, res)
        if self.config.get('user_raises', True):
            s2 = st.copy()
            e = self.user_exception(s2)
            if v.tag == 'user_result':
                self.hstore(s2, r_of(s2.TR[z3.Length(s2.TR) - 1]), 'raised', e.term)
            outs.append(Out('raise', s2, e))
        if self.config.get('user_await_interruptible', False):
            s3 = st.copy()
            e = self.alloc(s3, None)
            cid = smt.fresh('icls', smt.Int)
            s3.CL = z3.Store(s3.CL, r_of(e.term), cid)
            s3.assume(self.is_subclass_term(cid, self.cls('BaseException')))
            outs.append(Out('raise', s3, SV(e.term, 'ref', self.cls('BaseException'))))
        outs.append(Out('ok', st, res))
        return outs

    def await_future(self, st, fut: SV, node=None):
        """Suspension point: other actions run (rely-havoc under the unit's policy), then the future's outcome"""
        lib = self.lib_contract('await:asyncio.Future')
        if lib is None:
            raise Unsupported('await on a future needs the lib contract await:asyncio.Future', node)
        st = st.copy()
        self.havoc_user(st)
        self.assumptions_used.add('suspension at `await <future>`: the heap is havocked under the rely of the unit (A-PRIV frame on protected classes)')
        return self.apply_contract(st, lib, None, BuiltinV('await:asyncio.Future'), Args([fut]), node)

    # ------------------------------------------------------------------ context managers
    def make_ctxmanager(self, st, fv: FuncV, args: Args, node=None):
        """@contextlib.contextmanager generator with a single `yield`: split mechanically into the statements up to
        the yield (enter) and the handlers/finally around it (exit)."""
        fi = fv.fi
        body = fi.node.body
        body = [s for s in body if not (isinstance(s, ast.Expr) and isinstance(s.value, ast.Constant))]
        # find the Try that contains the yield, or a bare yield statement
        idx = None
        for i, s in enumerate(body):
            if any(isinstance(n, (ast.Yield, ast.YieldFrom)) for n in ast.walk(s)):
                idx = i
                break
        if idx is None:
            raise Unsupported('contextmanager without yield', node)
        ys = body[idx]
        pre, post = body[:idx], body[idx + 1:]
        eng = self

        def is_yield_stmt(s):
            return isinstance(s, ast.Expr) and isinstance(s.value, ast.Yield)

        if is_yield_stmt(ys):
            trynode = None
        elif isinstance(ys, ast.Try) and len(ys.body) == 1 and is_yield_stmt(ys.body[0]):
            trynode = ys
        else:
            raise Unsupported('contextmanager shape (yield must be alone in a try body)', node)
        binds = self.bind_params(st, fi.node, args, fi.qualname)
        if len(binds) != 1 or isinstance(binds[0], Out):
            raise Unsupported('contextmanager arguments', node)
        st0, loc = binds[0]
        for p, val in list(loc.items()):
            if isinstance(val, tuple) and val[0] == 'default':
                o = self.ev(st0, val[1])
                loc[p] = o[0].val
        selfv = loc.get(fi.node.args.args[0].arg) if fi.cls is not None and fi.node.args.args else None
        frame = Frame(fi, selfv, fi.cls, None, fi.module)
        frame.env = fv.env
        holder = {}

        def run_in_frame(st, stmts, token=None):
            saved_frame, saved_loc = st.frame, st.loc
            st = st.copy()
            frame.parent = saved_frame
            st.frame, st.loc = frame, (token if token is not None else loc)
            saved_unit = eng.cur_unit
            outs = eng.ex_block(st, stmts)
            res = []
            for o in outs:
                holder_loc = o.st.loc
                o.st.frame, o.st.loc = saved_frame, dict(saved_loc)
                res.append((o, holder_loc))
            return res

        def enter(eng_, st):
            outs = []
            for o, l in run_in_frame(st, pre):
                if o.kind == 'ok':
                    eo = Out('ok', o.st, eng.py_none())
                    eo.token = l   # the generator frame's locals on this path
                    outs.append(eo)
                elif o.kind == 'raise':
                    outs.append(o)
                else:
                    raise Unsupported('contextmanager enter returned')
            return outs

        def exit_(eng_, body_out: Out, token=None):
            st = body_out.st
            results = []
            if trynode is None:
                if body_out.kind == 'raise':
                    return [body_out]
                cont = [(Out('ok', st), None)]
            else:
                if body_out.kind == 'ok' and trynode.orelse:
                    cont = []
                    for fo, l in run_in_frame(st, trynode.orelse, token):
                        cont.append((Out('ok', fo.st) if fo.kind == 'ok' else fo, None))
                elif body_out.kind == 'raise' and trynode.handlers:
                    saved_frame, saved_loc = st.frame, st.loc
                    s2 = st.copy()
                    frame.parent = saved_frame
                    s2.frame, s2.loc = frame, (token if token is not None else loc)
                    hs = eng.dispatch_handlers(s2, body_out.val, trynode.handlers)
                    cont = []
                    for o in hs:
                        o.st.frame, o.st.loc = saved_frame, dict(saved_loc)
                        if o.kind == 'ok':
                            cont.append((Out('ok', o.st), None))  # exception swallowed
                        else:
                            cont.append((o, None))
                else:
                    cont = [(body_out, None)]
                if trynode.finalbody:
                    nc = []
                    for o, _ in cont:
                        for fo, l in run_in_frame(o.st, trynode.finalbody, token):
                            if fo.kind == 'ok':
                                nc.append((Out(o.kind, fo.st, o.val), None))
                            else:
                                nc.append((fo, None))
                    cont = nc
            for o, _ in cont:
                if o.kind == 'ok' and post:
                    for po, l in run_in_frame(o.st, post, token):
                        results.append(Out('ok', po.st) if po.kind in ('ok', 'ret') else po)
                else:
                    results.append(o)
            return results

        return self.ok(st0_restore(st0, st), CtxV(enter, exit_))


def st0_restore(st0, st):
    st0.frame, st0.loc = st.frame, dict(st.loc)
    return st0


class WrappedAsync:
    pass
