# -*- coding: utf-8 -*-
"""pyvc.contracts -- modular use of contracts at call sites, and verification of a function against its contract."""
from __future__ import annotations

import ast
import hashlib
import os
from typing import List, Optional

import z3

from . import smt
from .engine import Obligation
from .smt import (AND, FALSE, I, NOT, OR, S, TRUE, Val, b_of, boolv, i_of, intv, is_bool, is_int, is_none, is_ref,
                  is_str, none, r_of, ref, s_of, strv)
from .spec import Contract
from .values import (SV, Args, BoolTermV, BoundV, BuiltinV, ClassV, Frame, FuncV, LambdaV, ModuleV, Out, RawV,
                     SeqTermV, St, SuperV, TupleV, Unsupported, V)


class ContractMixin:
    # ------------------------------------------------------------------ lookup
    def contract_for(self, fi, st=None) -> Optional[Contract]:
        if self.contracts is None:
            return None
        c = self.contracts.by_target.get(fi.qualname)
        if c is None:
            return None
        if fi.qualname in self.config.get('inline', []) and self.cur_unit is not fi:
            # the unit asks for the body of this callee (the real code) instead of its contract
            return None
        if self.cur_unit is fi and (st is None or st.depth == 1 and False):
            return c
        return c

    def lib_contract(self, name) -> Optional[Contract]:
        if self.contracts is None:
            return None
        return self.contracts.lib.get(name)

    # ------------------------------------------------------------------ statement helpers
    def _label(self, call: ast.Call, default):
        if call.args and isinstance(call.args[0], ast.Constant) and isinstance(call.args[0].value, str) and len(call.args) >= 2:
            return call.args[0].value, call.args[1:]
        return default, call.args

    def contract_env(self, c: Contract, target_module, params: dict):
        env = dict(params)
        env['__target_module__'] = target_module
        return env

    def run_lets(self, st, c: Contract, env, phase, oldst=None, tolerant=False):
        """Evaluate let-bindings (`x = expr`).  phase 'pre': bindings before the first ensures/raises statement;
        phase 'post': the remaining ones."""
        seen_post = False
        for s in c.stmts:
            if isinstance(s, ast.Expr) and isinstance(s.value, ast.Call) and isinstance(s.value.func, ast.Name) \
                    and s.value.func.id in ('ensures', 'raises', 'raises_nothing', 'modifies'):
                seen_post = True
            if isinstance(s, ast.Assign):
                if (phase == 'pre') != (not seen_post):
                    continue
                try:
                    env[s.targets[0].id] = self.sev(st, s.value, env, c.module)
                except Unsupported:
                    if not tolerant:
                        raise

    # ------------------------------------------------------------------ modifies
    def parse_modifies(self, st: St, c: Contract, env, nodes=None):
        """-> dict(all=bool, cells=[(r, attr)], fields=[r], contents=[r], none=bool)"""
        mods = {'all': False, 'cells': [], 'fields': [], 'contents': [], 'declared': False, 'ghost': [], 'guards': {}}
        calls = c.calls('modifies') if nodes is None else None
        arglists = [cl.args for cl in calls] if calls is not None else [nodes]
        if calls is not None and calls:
            mods['declared'] = True
        if nodes is not None:
            mods['declared'] = True
        for args in arglists:
            for a in args:
                if isinstance(a, ast.Name) and a.id == 'all_heap':
                    mods['all'] = True
                elif isinstance(a, ast.Name) and a.id == 'user_effects':
                    mods['user'] = True
                elif isinstance(a, ast.Name) and a.id == 'nothing':
                    pass
                elif isinstance(a, ast.Attribute):
                    base = self.sev(st, a.value, env, c.module)
                    bt = self.to_term(st, base)
                    if not z3.is_false(smt.simp(is_ref(bt))):
                        mods['cells'].append((r_of(bt), a.attr))
                        mods['guards'][r_of(bt).get_id()] = smt.simp(is_ref(bt))
                elif isinstance(a, ast.Call) and isinstance(a.func, ast.Name) and a.func.id == 'attr' and len(a.args) == 2 \
                        and isinstance(a.args[1], ast.Constant):
                    base = self.sev(st, a.args[0], env, c.module)
                    bt = self.to_term(st, base)
                    if not z3.is_false(smt.simp(is_ref(bt))):
                        mods['cells'].append((r_of(bt), a.args[1].value))
                        mods['guards'][r_of(bt).get_id()] = smt.simp(is_ref(bt))
                elif isinstance(a, ast.Call) and isinstance(a.func, ast.Name) and a.func.id == 'fields':
                    base = self.sev(st, a.args[0], env, c.module)
                    bt = self.to_term(st, base)
                    if not z3.is_false(smt.simp(is_ref(bt))):
                        mods['fields'].append(r_of(bt))
                        mods['guards'][r_of(bt).get_id()] = smt.simp(is_ref(bt))
                elif isinstance(a, ast.Call) and isinstance(a.func, ast.Name) and a.func.id == 'contents':
                    base = self.sev(st, a.args[0], env, c.module)
                    bt = self.to_term(st, base)
                    if not z3.is_false(smt.simp(is_ref(bt))):
                        mods['contents'].append(r_of(bt))
                        g = is_ref(bt)
                        for kw_ in a.keywords:
                            if kw_.arg == 'when':
                                # contents(x, when=cond): x may be written only if cond holds (in the pre-state)
                                g = AND(g, self.spec_bool(st, self.sev(st, kw_.value, env, c.module)))
                        mods['guards'][r_of(bt).get_id()] = smt.simp(g)
                elif isinstance(a, ast.Call) and isinstance(a.func, ast.Name) and a.func.id == 'ghost':
                    mods['ghost'].append(a.args[0].value)
                elif isinstance(a, ast.Call) and isinstance(a.func, ast.Name) and a.func.id == 'younger_instances':
                    # younger_instances(x, Class): the fields of x itself and of every instance of Class allocated after x
                    base = self.sev(st, a.args[0], env, c.module)
                    cv = self.sev(st, a.args[1], env, c.module)
                    mods.setdefault('younger', []).append((r_of(self.to_term(st, base)), cv.ci))
                else:
                    raise Unsupported(f'modifies item {ast.unparse(a)}')
        return mods

    def grow_trace(self, st: St):
        """unknown code ran: the ghost trace of user calls may have grown (it never shrinks or changes its past)"""
        old = st.TR
        st.TR = z3.Concat(old, smt.fresh('TRsuffix', smt.SeqV))
        j = smt.fresh('gj', smt.Int)
        st.assume(z3.ForAll([j], z3.Implies(AND(j >= 0, j < z3.Length(old)), st.TR[j] == old[j])))
        # every element of the trace is a call-event record (objects of the ghost class UserCallEvent, never modified)
        ev = self.cls('UserCallEvent').id
        st.assume(z3.ForAll([j], z3.Implies(AND(j >= 0, j < z3.Length(st.TR)),
                                            AND(is_ref(st.TR[j]), z3.Select(st.CL, r_of(st.TR[j])) == I(ev)))))

    def apply_modifies(self, st: St, mods):
        """havoc the locations a callee may write"""
        if mods['all']:
            self.havoc_all(st)
            self.grow_trace(st)
            return
        if mods.get('user'):
            if not mods.get('no_grow'):
                self.grow_trace(st)
            # whatever unknown user code may do: everything except plumpy-internal objects (A-PRIV frame of the unit)
            self.havoc_user(st)
        def cond(r, new, old):
            g = mods['guards'].get(r.get_id(), TRUE)
            return new if z3.is_true(g) else z3.If(g, new, old)

        for (r, attr) in mods['cells']:
            old = self.hload(st, r, attr)
            self.hstore(st, r, attr, cond(r, smt.fresh('mod', Val), old))
        for r in mods['fields']:
            st.H = z3.Store(st.H, r, cond(r, smt.fresh('modf', smt.AttrMap), z3.Select(st.H, r)))
        for r in mods['contents']:
            st.DH = z3.Store(st.DH, r, cond(r, smt.fresh('modh', smt.HasMap), z3.Select(st.DH, r)))
            st.DV = z3.Store(st.DV, r, cond(r, smt.fresh('modv', smt.ValMap), z3.Select(st.DV, r)))
            nl = smt.fresh('modl', smt.Int)
            st.assume(nl >= 0)
            st.DL = z3.Store(st.DL, r, cond(r, nl, z3.Select(st.DL, r)))
            st.LS = z3.Store(st.LS, r, cond(r, smt.fresh('mods', smt.SeqV), z3.Select(st.LS, r)))
            mods.setdefault('_havocked', []).append(r)
        for g in mods['ghost']:
            arr = st.ghost[g]
            st.ghost[g] = smt.fresh('g' + g, arr.sort())
        for (r0, ci) in mods.get('younger', []):
            fH = smt.fresh('yH', smt.HeapSort)
            rq = z3.Const('r!y', smt.Int)
            oldH = st.H
            st.H = z3.Lambda([rq], z3.If(AND(rq >= r0, self.is_subclass_term(z3.Select(st.CL, rq), ci)), z3.Select(fH, rq), z3.Select(oldH, rq)))
        a0 = st.A
        st.A = smt.fresh('A', smt.Int)
        st.assume(st.A >= a0)
        mods.pop('_havocked', None)

    def havoc_all(self, st: St):
        tag = smt._cnt[0] = smt._cnt[0] + 1
        oldLS = st.LS
        st.H = z3.Const(f'H!h{tag}', smt.HeapSort)
        st.DH = z3.Const(f'DH!h{tag}', smt.DHSort)
        st.DV = z3.Const(f'DV!h{tag}', smt.DVSort)
        st.DL = z3.Const(f'DL!h{tag}', smt.DLSort)
        fLS = z3.Const(f'LS!h{tag}', smt.LSSort)
        a0 = st.A
        st.A = z3.Const(f'A!h{tag}', smt.Int)
        st.assume(st.A >= a0)
        r = z3.Const('r!q', smt.Int)
        tup = self.cls('tuple').id
        st.LS = z3.Lambda([r], z3.If(z3.Select(st.CL, r) == I(tup), z3.Select(oldLS, r), z3.Select(fLS, r)))

    # ------------------------------------------------------------------ call-site use of a contract
    def apply_contract(self, st: St, c: Contract, fi, fv, args: Args, node=None) -> List[Out]:
        outs = []
        if c.assumed:
            self.assumptions_used.add(f'assumed contract: {c.target}')
        else:
            self.contracts_used.add(c.target)
        bnode = c.node
        if c.ghost:
            # ghost parameters are not parameters of the real function: bind the call against the signature without them
            import copy as _copy
            bnode = _copy.copy(c.node)
            bnode.args = _copy.copy(c.node.args)
            pos_all = list(c.node.args.posonlyargs) + list(c.node.args.args)
            dflt = [None] * (len(pos_all) - len(c.node.args.defaults)) + list(c.node.args.defaults)
            keep = [(p_, d_) for p_, d_ in zip(pos_all, dflt) if p_.arg not in c.ghost]
            bnode.args.posonlyargs = []
            bnode.args.args = [p_ for p_, _ in keep]
            ds = [d_ for _, d_ in keep]
            while ds and ds[0] is None:
                ds.pop(0)
            if any(d_ is None for d_ in ds):
                raise Unsupported(f'contract {c.target}: non-default parameter after a default one once ghosts are removed')
            bnode.args.defaults = ds
            kws = [(p_, d_) for p_, d_ in zip(c.node.args.kwonlyargs, c.node.args.kw_defaults) if p_.arg not in c.ghost]
            bnode.args.kwonlyargs = [p_ for p_, _ in kws]
            bnode.args.kw_defaults = [d_ for _, d_ in kws]
        binds = self.bind_params(st, bnode, args, c.target)
        tmod = fi.module if fi is not None else None
        for b in binds:
            if isinstance(b, Out):
                outs.append(b)
                continue
            s2, loc = b
            if fi is not None and fi.cls is not None and fi.kind in ('method', 'property', 'setter') and c.node.args.args:
                # the receiver of a method found on class K is an instance of K: let declared attribute types of K apply
                p0 = c.node.args.args[0].arg
                v0 = loc.get(p0)
                if isinstance(v0, SV) and v0.kind in (None, 'ref') and not v0.exact and not fi.cls.external \
                        and (v0.cls is None or (v0.cls is not fi.cls and v0.cls in fi.cls.mro)):
                    if self.entails(s2, AND(is_ref(v0.term), self.is_subclass_term(z3.Select(s2.CL, r_of(v0.term)), fi.cls))):
                        loc[p0] = SV(v0.term, 'ref', fi.cls)
            for g in c.ghost:
                if g not in loc or (isinstance(loc[g], tuple) and loc[g][0] == 'default'):
                    # ghost arguments are chosen by the caller: its own ghost of the same name if it has one
                    mine = self.unit_env.get(g) if self.unit_contract is not None and g in self.unit_contract.ghost else None
                    loc[g] = mine if mine is not None else SV(smt.fresh('ghost_' + g, Val))
            for p, val in list(loc.items()):
                if isinstance(val, tuple) and val[0] == 'default':
                    loc[p] = self.sev(s2, val[1], {'__target_module__': tmod}, c.module)
            for p, val in list(loc.items()):
                from .calls import KwDictV
                if isinstance(val, KwDictV):
                    loc[p] = self.materialise_kwdict(s2, val)
            from .values import BoundV as _BoundV, LambdaV as _LambdaV, TupleV as _TupleV
            for p, val in list(loc.items()):
                # values that are allocated on materialisation (bound methods, closures, tuples) exist BEFORE the call: give
                # them their heap identity now, not lazily inside a postcondition (where they would look younger than the
                # fields that hold them -- a contradiction that silently removed the path)
                if isinstance(val, (_BoundV, _LambdaV, _TupleV)) or (isinstance(val, FuncV) and val.env is not None) \
                        or type(val).__name__ == 'PartialV':
                    self.to_term(s2, val)
            for g in c.ghost:
                if g not in loc:
                    loc[g] = SV(smt.fresh('ghost_' + g, Val))
            env = self.contract_env(c, tmod, loc)
            dbg0 = os.environ.get('PYVC_DEBUG_CONTRACT') == c.target
            if dbg0:
                print('DEBUG enter', c.target, 'feasible:', self.feasible(s2), 'chain:', self.call_chain(st), 'line', getattr(node, 'lineno', None), 'notes', st.notes[-6:])
                if os.environ.get('PYVC_DEBUG_STACK'):
                    import traceback
                    traceback.print_stack(limit=int(os.environ['PYVC_DEBUG_STACK']))
            self.run_lets(s2, c, env, 'pre')
            if dbg0:
                print('   after lets:', self.feasible(s2))
            # preconditions become obligations of the caller
            for i, call in enumerate(c.calls('requires')):
                label, rest = self._label(call, f'pre{i}')
                goal = self.spec_bool(s2, self.sev(s2, rest[0], env, c.module))
                if c.ghost and any(isinstance(n_, ast.Name) and n_.id in c.ghost for n_ in ast.walk(rest[0])):
                    # ghost parameters are chosen by the caller: constraints on them are assumptions of the instance used
                    s2.assume(goal)
                    continue
                if c.assumed and self.config.get('trust_lib_pre', False):
                    s2.assume(goal)
                    continue
                if not self.entails(s2, goal):
                    goal_ob = goal
                    uc = self.unit_contract
                    for kn in (uc.calls('known') if uc is not None else []):
                        if kn.args[0].value == f"{c.target.rsplit('.', 1)[-1]}::{label}":
                            # a known finding recorded against this call-site precondition: proved on the complement
                            when = self.spec_bool(s2, self.sev(s2, kn.args[2], self.unit_env, uc.module))
                            kob = self.add_obligation('pre', s2, z3.Implies(when, goal), f'{c.target}::{label}@{kn.args[1].value}', node,
                                                      detail='known finding side: ' + ast.unparse(kn.args[2]))
                            kob.expect_refuted = True
                            kob.known_id = kn.args[1].value
                            goal_ob = z3.Implies(NOT(when), goal_ob)
                    ob_ = self.add_obligation('pre', s2, goal_ob, f'{c.target}::{label}', node, detail=ast.unparse(rest[0]))
                    ob_.replay = {k.args[0].value: k.args[1].value for k in (uc.calls('replay') if uc is not None else [])}.get(
                        f"{c.target.rsplit('.', 1)[-1]}::{label}")
                s2.assume(goal)
                if dbg0:
                    print('   after requires', label, self.feasible(s2))
            uc_ = self.unit_contract
            if uc_ is not None and uc_ is not c:
                for cr in uc_.calls('call_requires'):
                    if cr.args[0].value == c.target:
                        # an obligation of THIS unit at each of its calls of the callee (stated over the unit's own parameters, in the
                        # state just before the call): anchored at the call, not at a line number
                        e5 = dict(self.unit_env)
                        e5['__old__'] = self.unit_pre
                        for k_, v_ in loc.items():      # the callee's parameters, unless the unit has one of the same name
                            e5.setdefault(k_, v_)
                        goal = self.spec_bool(s2, self.sev(s2, cr.args[2], e5, uc_.module))
                        ob_ = self.add_obligation('pre', s2, goal, cr.args[1].value, node, detail=ast.unparse(cr.args[2]))
                        ob_.replay = {k.args[0].value: k.args[1].value for k in uc_.calls('replay')}.get(cr.args[1].value)
                        self.call_requires_hit.add(cr.args[1].value)
                        s2.assume(goal)
            pre = s2.heap_snapshot()
            pre_len = len(pre.pc)
            env['__old__'] = pre
            # ---- normal return
            normal_possible = not c.has('never_returns')
            mods = self.parse_modifies(s2, c, env)
            ev_r = None
            if c.opts.get('event') and fi is not None:
                # an abstract (assumed) method that stands for unknown code: the call is logged in the trace like a user call
                evv = self.record_user_call(s2, self.func_ref(fi), args)
                ev_r = r_of(evv.term)
                mods['no_grow'] = True     # like a user call: one event; what the unknown code calls in turn is not logged
            if normal_possible:
                s3 = s2.copy()
                if dbg0:
                    print('   copy feasible', self.feasible(s3), 'mods', {k_: len(v_) if hasattr(v_, '__len__') else v_ for k_, v_ in mods.items()})
                self.apply_modifies(s3, mods)
                if dbg0:
                    print('   after apply_modifies', self.feasible(s3))
                res = SV(smt.fresh('res', Val))
                s3.assume(self.older(s3, res.term))
                if dbg0:
                    print('   after res older', self.feasible(s3))
                e3 = dict(env)
                e3['ret'] = res
                if 'result' not in loc:
                    e3['result'] = res
                rk = c.opts.get('result_class')
                if rk:
                    ci = self.cls(rk)
                    res = SV(res.term, 'ref', ci)
                    s3.assume(self.isinstance_term(s3, SV(res.term), ci))
                    e3['ret'] = res
                    if 'result' not in loc:
                        e3['result'] = res
                rkind = c.opts.get('result_kind')
                if rkind:
                    res = SV(res.term, rkind)
                    s3.assume({'bool': is_bool, 'int': is_int, 'str': is_str, 'none': is_none, 'ref': is_ref}[rkind](res.term))
                    e3['ret'] = res
                    if 'result' not in loc:
                        e3['result'] = res
                if ev_r is not None:
                    self.hstore(s3, ev_r, 'result', res.term)
                    if self.config.get('user_results_foreign') and not c.opts.get('result_class'):
                        s3.assume(z3.Implies(is_ref(res.term), z3.Select(s3.CL, r_of(res.term)) >= I(self.index.first_free_id)))
                    res.tag = 'user_result'
                self.run_lets(s3, c, e3, 'post')
                # ghost updates of the callee: the cell gets a new value, characterised by the callee's postconditions
                for call in c.calls('ghost_update'):
                    self.do_ghost_update(s3, call, e3, c, opaque=True)
                dbg = os.environ.get('PYVC_DEBUG_CONTRACT') == c.target
                if dbg:
                    print('DEBUG apply', c.target, 'feasible after modifies:', self.feasible(s3))
                for call in c.calls('ensures'):
                    label, rest = self._label(call, 'post')
                    clause = self.spec_bool(s3, self.sev(s3, rest[0], e3, c.module))
                    for kn in c.calls('known'):
                        if kn.args[0].value == label:
                            # the callee has an open known finding on this clause: callers may rely on it only off the finding
                            clause = z3.Implies(NOT(self.spec_bool(s3, self.sev(s3, kn.args[2], e3, c.module))), clause)
                    s3.assume(clause)
                    if dbg:
                        print('   after ensures', label, self.feasible(s3))
                uc_ = self.unit_contract
                if uc_ is not None and uc_ is not c:
                    for cf in uc_.calls('call_fact'):
                        if cf.args[0].value == c.target:
                            # an ASSUMED fact about what this callee hands back at this unit's call sites (stated over the unit's own
                            # parameters and `ret`); listed in the trusted base of the unit
                            e5 = dict(self.unit_env)
                            e5['ret'] = res
                            e5['__old__'] = self.unit_pre
                            s3.assume(self.spec_bool(s3, self.sev(s3, cf.args[2], e5, uc_.module)))
                            self.assumptions_used.add(f'assumed at the calls of {c.target} in {uc_.target}: {cf.args[1].value}: '
                                                      + ast.unparse(cf.args[2]))
                s3.pc.extend(pre.pc[pre_len:])
                if self.feasible(s3):
                    outs.append(Out('ok', s3, res))
            # ---- exceptional returns
            rcalls = c.calls('raises')
            if rcalls:
                for call in rcalls:
                    label, rest = self._label(call, 'raises')
                    exc_cls = self.sev(s2, rest[0], env, c.module)
                    s4 = s2.copy()
                    if call.keywords and any(k.arg == 'modifies' for k in call.keywords):
                        pass
                    self.apply_modifies(s4, mods)
                    et = smt.fresh('exc', Val)
                    s4.assume(AND(is_ref(et), r_of(et) < s4.A,
                                  self.is_subclass_term(z3.Select(s4.CL, r_of(et)), exc_cls.ci)))
                    ev = SV(et, 'ref', exc_cls.ci)
                    if ev_r is not None:
                        self.hstore(s4, ev_r, 'raised', et)
                    e4 = dict(env)
                    e4['exc'] = ev
                    self.run_lets(s4, c, e4, 'post', tolerant=True)
                    if len(rest) > 1:
                        s4.assume(self.spec_bool(s4, self.sev(s4, rest[1], e4, c.module)))
                    s4.pc.extend(pre.pc[pre_len:])
                    ok4 = self.feasible(s4)
                    if dbg0:
                        print('   raise branch', label, ast.unparse(rest[0]), 'feasible:', ok4, 'notes', s4.notes[-6:])
                    if ok4:
                        outs.append(Out('raise', s4, ev))
            elif not c.has('raises_nothing'):
                # silent about exceptions: may raise any Exception after arbitrary changes within `modifies`
                s4 = s2.copy()
                self.apply_modifies(s4, mods)
                outs.append(Out('raise', s4, self.user_exception(s4)))
        return outs

    def do_ghost_update(self, st, call, env, c, opaque=False):
        name = call.args[0].value
        key = self.sev(st, call.args[1], env, c.module)
        arr = st.ghost[name]
        if opaque:
            st.ghost[name] = z3.Store(arr, r_of(self.to_term(st, key)), smt.fresh('gv_' + name, arr.sort().range()))
            return
        val = self.sev(st, call.args[2], env, c.module)
        t = val.term if isinstance(val, (SeqTermV, RawV, BoolTermV)) else self.to_term(st, val)
        if arr.sort().range() == smt.Bool and t.sort() != smt.Bool:
            t = self.spec_bool(st, val)
        st.ghost[name] = z3.Store(arr, r_of(self.to_term(st, key)), t)

    # ------------------------------------------------------------------ obligations
    def add_obligation(self, kind, st: St, goal, name, node=None, detail=''):
        unit = self.cur_unit.qualname if self.cur_unit is not None else '?'
        ph = self.path_hash(st)
        full = f'{unit}::{name}'
        ob = Obligation(full, kind, st, goal, detail, unit, node)
        if self.unit_pre is not None:
            ob.pc = ob.pc + self.unit_pre.pc[self.unit_pre_len:]
        ob.path = ph
        self.obligations.append(ob)
        return ob

    def path_hash(self, st):
        h = hashlib.sha1()
        for c in st.pc[-12:]:
            h.update(str(c.hash()).encode())
        return h.hexdigest()[:8]

    # ------------------------------------------------------------------ verifying a unit
    def initial_axioms(self, st: St):
        """Facts about the constant part of the heap (class objects, the empty tuple, ...)"""
        ax = []
        ax.append(st.A >= I(self.first_heap_id()))
        ax.append(z3.Select(st.LS, I(self.EMPTY_TUPLE)) == z3.Empty(smt.SeqV))
        ax.append(z3.Select(st.CL, I(self.EMPTY_TUPLE)) == I(self.cls('tuple').id))
        return ax

    def assume_class_invariants(self, st: St, v, env=None):
        """Class invariants (CONFIG['class_invariants']) are assumed for every object of the class: they are proved as
        postconditions of the constructors and nobody else writes those fields (A-PRIV)."""
        invs = self.config.get('class_invariants', {})
        if not invs or not isinstance(v, SV) or v.kind in ('none', 'bool', 'int', 'str') or v.cls is None:
            return
        for q, fname in invs.items():
            ci = self.cls(q)
            if v.cls is not None and ci not in v.cls.mro and v.cls not in ci.mro:
                continue
            guard = self.isinstance_term(st, v, ci)
            sf = self.contracts.specfuncs[fname]
            e = {'__target_module__': None}
            body = self.spec_bool(st, self.call_specfunc(st, sf, [SV(v.term, 'ref', ci if (v.cls is None or v.cls in ci.mro) else v.cls)], e))
            st.assume(z3.Implies(guard, body))
            self.assumptions_used.add(f'class invariant {fname} of {ci.name} assumed for objects not created in this unit (proved at {ci.name}.__init__)')

    def param_facts(self, st: St, v: SV):
        st.assume(self.older(st, v.term))
        st.assume(z3.Implies(is_ref(v.term), r_of(v.term) >= 1))

    def const_facts(self, st: St):
        for cid, ci in self.const_class.items():
            f = z3.Select(st.CL, I(cid)) == I(ci.id)
            if not any(f.eq(x) for x in st.pc[:50]):
                st.assume(f)
        st.assume(z3.Select(st.LS, I(self.EMPTY_TUPLE)) == z3.Empty(smt.SeqV))

    def verify_unit(self, fi, c: Contract):
        """Generate all obligations of function fi against contract c."""
        self.cur_unit = fi
        fi._loops = None
        st = St.initial()
        for a in self.initial_axioms(st):
            st.assume(a)
        fnode = fi.node
        a = fnode.args
        loc = {}
        names = [p.arg for p in a.posonlyargs + a.args]
        for i, p in enumerate(names):
            t = smt.fresh('p_' + p, Val)
            v = SV(t)
            if i == 0 and fi.cls is not None and fi.kind in ('method', 'property', 'setter') and fi.outer is None:
                v = SV(t, 'ref', fi.cls)
                st.assume(AND(is_ref(t), self.is_subclass_term(z3.Select(st.CL, r_of(t)), fi.cls)))
            elif i == 0 and fi.cls is not None and fi.kind == 'class' and fi.outer is None:
                v = ClassV(fi.cls)
                self.note(f'classmethod {fi.qualname} verified with cls = {fi.cls.name} (subclasses share the body)')
            if isinstance(v, SV):
                self.param_facts(st, v)
            loc[p] = v
        if a.vararg is not None:
            o = self.alloc_pre(st, self.cls('tuple'))
            loc[a.vararg.arg] = o
        if a.kwarg is not None:
            o = self.alloc_pre(st, self.cls('dict'))
            st.assume(self.dict_len(st, r_of(o.term)) >= 0)
            # Python binds named parameters first: their names cannot occur in **kwargs
            for pn in names + [p_.arg for p_ in a.kwonlyargs]:
                st.assume(NOT(self.dict_has(st, r_of(o.term), strv(S(pn)))))
            loc[a.kwarg.arg] = o
        for p in a.kwonlyargs:
            t = smt.fresh('p_' + p.arg, Val)
            loc[p.arg] = SV(t)
            self.param_facts(st, loc[p.arg])
        # closure variables of nested functions are ghost parameters
        envv = {}
        if fi.outer is not None:
            for n in self.free_names(fi):
                t = smt.fresh('c_' + n, Val)
                envv[n] = SV(t)
                self.param_facts(st, envv[n])
        ghosts = {}
        for g in c.ghost:
            ghosts[g] = SV(smt.fresh('ghost_' + g, Val))
        for name, srt in self.config.get('ghost_arrays', {}).items():
            st.ghost[name] = z3.Const('G_' + name + '0', srt)
        specenv = dict(loc)
        specenv.update(envv)
        specenv.update(ghosts)
        env = self.contract_env(c, fi.module, specenv)
        self.const_facts(st)
        self.run_lets(st, c, env, 'pre')
        # narrow parameter hints from `requires(isinstance(p, C))` / is_str(...) clauses
        for i, call in enumerate(c.calls('requires')):
            label, rest = self._label(call, f'pre{i}')
            st.assume(self.spec_bool(st, self.sev(st, rest[0], env, c.module)))
            self.narrow_from_requires(st, rest[0], loc, envv, env, c)
        # assumes(label, expr): an input-validity ASSUMPTION of the unit (not demanded from callers): listed in the trusted base
        for i, call in enumerate(c.calls('assumes')):
            label, rest = self._label(call, f'assumed{i}')
            st.assume(self.spec_bool(st, self.sev(st, rest[0], env, c.module)))
            self.narrow_from_requires(st, rest[0], loc, envv, env, c)
            self.assumptions_used.add(f'{c.target} assumes {label}: {ast.unparse(rest[0])[:160]}')
        self.const_facts(st)
        for v in list(loc.values()) + list(envv.values()):
            self.assume_class_invariants(st, v)
        # vacuity guard: the assumed pre-state must be satisfiable
        self.add_obligation('cover', st, TRUE, 'pre_satisfiable')
        pre = st.heap_snapshot()
        self.unit_pre_len = len(pre.pc)
        st.old = pre
        env['__old__'] = pre
        self.unit_env = env
        self.unit_contract = c
        self.unit_pre = pre
        # run the body (through its decorators)
        from .calls import KwDictV
        args = Args([loc[p] for p in names])
        if a.vararg is not None:
            args.tail = self.list_seq(st, r_of(loc[a.vararg.arg].term))
        if a.kwarg is not None:
            args.kwrest = loc[a.kwarg.arg]
        for p in a.kwonlyargs:
            args.kw[p.arg] = loc[p.arg]
        fv = FuncV(fi, envv if fi.outer is not None else None)
        st.frame = None
        st.loc = {}
        self.in_unit_root = True
        if fi.is_async:
            outs = self.call_function_now(st, fv, args, None, root=True)
        else:
            outs = self.inline(st, fv, args, None)
        self.stats['paths'] += len(outs)
        for cr in c.calls('call_requires'):
            if cr.args[1].value not in self.call_requires_hit:
                # vacuity guard: the call the obligation is anchored at was never reached
                self.add_obligation('post', pre, FALSE, f'{cr.args[1].value}::call_is_reached', None,
                                    detail=f'no explored path calls {cr.args[0].value}')
        says_never = any(isinstance(e.args[-1], ast.Constant) and e.args[-1].value is False for e in c.calls('ensures'))
        if c.calls('ensures') and not c.has('never_returns') and not says_never and not any(o.kind == 'ok' for o in outs):
            # vacuity guard: postconditions were stated but no path returns normally -- they would all hold for nothing
            self.add_obligation('post', pre, FALSE, 'some_path_returns_normally', None,
                                detail='the contract states postconditions but no explored path returns normally')
        if os.environ.get('PYVC_DEBUG_OUTS'):
            for o in outs:
                print('OUT', o.kind, getattr(o.val, 'cls', None), 'feasible=', self.feasible(o.st), [n for n in o.st.notes][-3:])
        mods = None
        for o in outs:
            self.check_outcome(o, c, env, fi)
        return outs

    def alloc_pre(self, st, ci):
        """a pre-existing object of class ci (parameter)"""
        t = smt.fresh('p_obj', smt.Int)
        st.assume(AND(t >= I(self.first_heap_id()), t < st.A, z3.Select(st.CL, t) == I(ci.id)))
        return SV(ref(t), 'ref', ci, True)

    def free_names(self, fi):
        """names used in nested function fi that are bound in an enclosing function"""
        bound = {a.arg for a in fi.node.args.args + fi.node.args.kwonlyargs}
        if fi.node.args.vararg:
            bound.add(fi.node.args.vararg.arg)
        if fi.node.args.kwarg:
            bound.add(fi.node.args.kwarg.arg)
        for n in ast.walk(fi.node):
            if isinstance(n, ast.Name) and isinstance(n.ctx, ast.Store):
                bound.add(n.id)
        outer_bound = set()
        o = fi.outer
        while o is not None:
            outer_bound |= {a.arg for a in o.node.args.args + o.node.args.kwonlyargs}
            if o.node.args.vararg:
                outer_bound.add(o.node.args.vararg.arg)
            if o.node.args.kwarg:
                outer_bound.add(o.node.args.kwarg.arg)
            for n in ast.walk(o.node):
                if isinstance(n, ast.Name) and isinstance(n.ctx, ast.Store):
                    outer_bound.add(n.id)
                if isinstance(n, (ast.FunctionDef, ast.AsyncFunctionDef)) and n is not o.node:
                    outer_bound.add(n.name)
            o = o.outer
        used = {n.id for n in ast.walk(fi.node) if isinstance(n, ast.Name) and isinstance(n.ctx, ast.Load)}
        return sorted((used - bound) & outer_bound)

    def narrow_from_requires(self, st, expr, loc, envv, env, c):
        """Use `isinstance(p, C)` / `is_str(p)` ... conjuncts of a precondition as Python-side hints"""
        conj = expr.values if isinstance(expr, ast.BoolOp) and isinstance(expr.op, ast.And) else [expr]
        for e in conj:
            if isinstance(e, ast.Call) and isinstance(e.func, ast.Name) and e.args and isinstance(e.args[0], ast.Name):
                p = e.args[0].id
                for table in (loc, envv, env):
                    if p in table and isinstance(table[p], SV):
                        v = table[p]
                        nv = None
                        if e.func.id == 'isinstance' and len(e.args) == 2:
                            cv = self.sev(st, e.args[1], env, c.module)
                            if isinstance(cv, ClassV):
                                q = cv.ci.qualname
                                if q in ('str', 'int', 'bool'):
                                    nv = SV(v.term, q)
                                else:
                                    nv = SV(v.term, 'ref', cv.ci)
                        elif e.func.id == 'type_is' and len(e.args) == 2:
                            cv = self.sev(st, e.args[1], env, c.module)
                            nv = SV(v.term, 'ref', cv.ci, True)
                        elif e.func.id in ('is_str', 'is_int', 'is_bool', 'is_none', 'is_ref'):
                            nv = SV(v.term, e.func.id[3:], v.cls)
                        elif e.func.id in ('is_dict', 'is_list', 'is_tuple'):
                            nv = SV(v.term, 'ref', self.cls(e.func.id[3:]), True)
                        elif e.func.id == 'is_namedtuple':
                            nv = SV(v.term, 'ref', self.cls('tuple_namedtuple'), True)
                        elif e.func.id == 'is_set':
                            nv = SV(v.term, 'ref', self.cls('set'))
                        if nv is not None:
                            table[p] = nv

    def check_outcome(self, o: Out, c: Contract, env, fi):
        st = o.st
        if o.kind == 'ok':
            e = dict(env)
            e['ret'] = o.val
            if 'result' not in [a_.arg for a_ in fi.node.args.args]:
                e['result'] = o.val
            self.run_lets(st, c, e, 'post')
            for call in c.calls('ghost_update'):
                self.do_ghost_update(st, call, e, c)
            replays = {k.args[0].value: k.args[1].value for k in c.calls('replay')}
            for i, call in enumerate(c.calls('ensures')):
                label, rest = self._label(call, f'post{i}')
                goal = self.spec_bool(st, self.sev(st, rest[0], e, c.module))
                for kn in c.calls('known'):
                    if kn.args[0].value != label:
                        continue
                    when = self.spec_bool(st, self.sev(st, kn.args[2], e, c.module))
                    kob = self.add_obligation('post', st, z3.Implies(when, goal), f'{label}@{kn.args[1].value}', None,
                                              detail='known finding side: ' + ast.unparse(kn.args[2]))
                    kob.expect_refuted = True
                    kob.known_id = kn.args[1].value
                    goal = z3.Implies(NOT(when), goal)
                ob = self.add_obligation('post', st, goal, label, None, detail=ast.unparse(rest[0]))
                ob.replay = replays.get(label)
            self.check_frame(st, c, e)
        elif o.kind == 'raise':
            rcalls = c.calls('raises')
            if c.has('raises_nothing') and not rcalls:
                e = dict(env)
                e['exc'] = o.val
                self.run_lets(st, c, e, 'post', tolerant=True)
                goal = self.known_sides(st, c, e, 'raises_nothing', FALSE, 'raises', o.val)
                ob = self.add_obligation('raises', st, goal, 'raises_nothing', None, detail='no exception may escape')
                ob.exc = o.val
                ob.replay = {k.args[0].value: k.args[1].value for k in c.calls('replay')}.get('raises_nothing')
                return
            if not rcalls:
                # contract silent about exceptions: any Exception allowed, but not BaseException-only classes
                return
            alts = []
            e = dict(env)
            e['exc'] = o.val
            self.run_lets(st, c, e, 'post', tolerant=True)
            for call in rcalls:
                label, rest = self._label(call, 'raises')
                exc_cls = self.sev(st, rest[0], e, c.module)
                t = self.isinstance_term(st, o.val, exc_cls.ci)
                if len(rest) > 1:
                    t = AND(t, self.spec_bool(st, self.sev(st, rest[1], e, c.module)))
                alts.append(t)
            goal = self.known_sides(st, c, e, 'raises_only_declared', OR(*alts), 'raises', o.val)
            ob = self.add_obligation('raises', st, goal, 'raises_only_declared', None,
                                     detail=' | '.join(ast.unparse(cl) for cl in rcalls))
            ob.exc = o.val
            ob.replay = {k.args[0].value: k.args[1].value for k in c.calls('replay')}.get('raises_only_declared')
            if c.has('frame_on_raise'):
                self.check_frame(st, c, e)
        else:
            raise Unsupported(f'outcome {o.kind} at unit end')

    def known_sides(self, st, c, e, label, goal, kind, exc=None):
        """open known findings on an exceptional clause: the clause is proved on the complement of each finding's `when`;
        the `when` side must still be refutable (else the entry is stale)"""
        for kn in c.calls('known'):
            if kn.args[0].value != label:
                continue
            when = self.spec_bool(st, self.sev(st, kn.args[2], e, c.module))
            if self.feasible(st, when):
                kob = self.add_obligation(kind, st, z3.Implies(when, goal), f'{label}@{kn.args[1].value}', None,
                                          detail='known finding side: ' + ast.unparse(kn.args[2]))
                kob.expect_refuted = True
                kob.known_id = kn.args[1].value
                kob.exc = exc
            goal = z3.Implies(NOT(when), goal)
        return goal

    def check_frame(self, st: St, c: Contract, env):
        pre = env['__old__']
        mods = self.parse_modifies(pre, c, env)
        if mods['all'] or mods.get('user') or mods.get('younger'):
            return
        r = smt.fresh('fr', smt.Int)
        a = smt.fresh('fa', smt.Str)
        g_ = lambda rr: mods['guards'].get(rr.get_id(), TRUE)
        excl = [AND(g_(rr), r == rr, a == S(attr)) for (rr, attr) in mods['cells']] + [AND(g_(rr), r == rr) for rr in mods['fields']]
        goal = z3.Implies(AND(r < pre.A, NOT(OR(*excl)) if excl else TRUE),
                          z3.Select(z3.Select(st.H, r), a) == z3.Select(z3.Select(pre.H, r), a))
        self.add_obligation('frame', st, goal, 'frame_fields', None, detail='only the declared attribute cells of pre-existing objects change')
        exc2 = [AND(g_(rr), r == rr) for rr in mods['contents']]
        goal2 = z3.Implies(AND(r < pre.A, NOT(OR(*exc2)) if exc2 else TRUE),
                           AND(z3.Select(st.DH, r) == z3.Select(pre.DH, r), z3.Select(st.DV, r) == z3.Select(pre.DV, r),
                               z3.Select(st.DL, r) == z3.Select(pre.DL, r), z3.Select(st.LS, r) == z3.Select(pre.LS, r)))
        self.add_obligation('frame', st, goal2, 'frame_containers', None, detail='only the declared containers of pre-existing objects change')
