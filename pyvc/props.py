# -*- coding: utf-8 -*-
"""Per-property registry: syntactic lemmas (scans), trusted base beyond what the engine collects, bounded stand-ins,
clauses of the statement that are not claimed."""

PROPS = {
    'C14': {'scans': [], 'trusted': [], 'bounded': [], 'not_claimed': []},
    'C20': {'scans': [], 'trusted': [], 'bounded': [], 'not_claimed': []},
    'C15': {'scans': [], 'trusted': [], 'bounded': [], 'not_claimed': []},
    'C19': {'scans': [], 'trusted': [], 'bounded': [], 'not_claimed': []},
    'C13': {
        'scans': [],
        'trusted': [],
        'bounded': [],
        'not_claimed': [],
    },
}
