# -*- coding: utf-8 -*-
"""Per-property registry: syntactic lemmas (scans), trusted base beyond what the engine collects, bounded stand-ins,
clauses of the statement that are not claimed."""

PROPS = {
    'C17': {'scans': [], 'trusted': [],
            'bounded': [{'name': 'launcher_task_search', 'recipe': 'launcher_tasks',
                         'functions': 'ProcessLauncher.__call__ / _launch / _create / _continue end to end against recording stand-ins '
                                      '(coroutine scheduling and the replies are outside the contracts)',
                         'bound': 'launch / create: persist x nowait x persister given x init args x init kwargs x entry point (64 x 2); continue: '
                                  'nowait x persister x tag x entry point x load context (32); continue from a checkpoint that does not exist '
                                  '(16); unknown task; failing process'}],
            'not_claimed': []},
    'C16': {'scans': [], 'trusted': [],
            'bounded': [{'name': 'remote_vs_direct_search', 'recipe': 'remote_equals_direct',
                         'functions': 'Process._schedule_rpc.<run_callback> (reply = flattened outcome of the scheduled call), init() subscriptions '
                                      'and their removal on close, LoopCommunicator/convert_to_comm: assumed in the contracts, exercised here',
                         'bound': 'in-process LocalCommunicator; pause/pause-no-text/play/kill x 3 points (created, running, waiting) x rpc/broadcast '
                                  'against a directly controlled twin; status x 3; unknown intent; 16 announcement histories with one tolerated '
                                  'broadcast failure each; thorough tier adds a control message during a 6.5 s step'}],
            'not_claimed': ['the exact subject text state_changed.<from>.<to> is checked by the bounded search only (enum values are not modelled)',
                            'thread hand-over of RemoteProcessThreadController / LoopCommunicator (real threads are outside the family)']},
    'C12': {'scans': [], 'trusted': [],
            'bounded': [{'name': 'emission_search', 'recipe': 'output_emission',
                         'functions': 'Process.out for NESTED paths (descent over namespace components), PortNamespace.get_port(create_dynamically), '
                                      'Port.validate / validate_dynamic_ports (assumed in the contracts), on_finish validation on a live process',
                         'bound': '16 emissions (declared, optional, nested, dynamic at depth 1 and 2, undeclared, rejected by type / validator / '
                                  'namespace, crashing validator) x outputs empty or not: 32 runs'}],
            'not_claimed': ['which values a port accepts (C11); nested emission paths are covered by the bounded search only']},
    'C11': {'scans': [], 'trusted': [],
            'bounded': [{'name': 'input_search', 'recipe': 'input_validation',
                         'functions': 'PortNamespace.pre_process / validate / validate_ports / validate_dynamic_ports (recursive over the port '
                                      'tree), Process.on_create (recursive copy of the raw inputs), Frozendict/AttributesFrozendict',
                         'bound': 'one spec (required, optional, defaulted, callable-defaulted and validated leaf ports; a nested, a lazy and a '
                                  'typed dynamic namespace) x 31 input variants x 3 omissions = 93 constructions against a reference model'}],
            'not_claimed': ['the recursive namespace functions are covered by the bounded search only; proved: the verdict of a single port '
                            '(Port.validate)']},
    'C10': {'scans': [], 'trusted': [],
            'bounded': [{'name': 'barrier_search', 'recipe': 'context_barrier',
                         'functions': 'WorkChain step -> Waiting state -> completion callbacks -> next step (history over the event loop: '
                                      'outside per-function contracts), Waiting.exit, Process.launch',
                         'bound': '1..3 awaited futures, every completion order, at most one failing item, ToContext and to_context(), 4 modes '
                                  '(spread over iterations, one iteration, completed before the wait, completed while paused then play): 264 histories'}],
            'not_claimed': ['child processes launched with Process.launch (their future is awaited like any other: resolved())',
                            'replacement of an earlier context value by a later step (plain attribute assignment)']},
    'C06': {'scans': [], 'trusted': [],
            'bounded': [{'name': 'control_history_search', 'recipe': 'control_histories', 'args': {'claims': ['C06']},
                         'functions': 'resume() interleaved with pause/play/kill inside one waiting step (history over the event loop)',
                         'bound': 'three-step process; all sequences of up to 3 requests from {pause(msg), pause(), play, kill, resume, cancel} inside the waiting step '
                                  '(issued in one loop iteration, or with the event loop running between them), from a listener, and single requests on a '
                                  'restored process: the histories of C04 that contain a resume'},
                        {'name': 'wakeup_search', 'recipe': 'context_barrier',
                         'functions': 'wake-up histories over the event loop (completion callbacks vs pause/play): outside per-function contracts',
                         'bound': '1..3 awaited futures, every completion order, 4 modes incl. completion while paused then play: 264 histories'}],
            'not_claimed': ['"continues once it is playing" is a liveness statement over the event loop: the contracts cover the safety half '
                            '(the wake-up is recorded in the waiting future exactly once and survives an interruption of execute())',
                            'interleavings with kill/pause inside Process.step (see C04/C05)']},
    'C07': {'scans': [], 'trusted': [],
            'bounded': [{'name': 'process_bundle_roundtrip', 'recipe': 'bundle_roundtrip',
                         'functions': 'Process.save_instance_state/load_instance_state, per-state save/load (process_states), ContextMixin, '
                                      'SavableFuture, Bundle YAML/pickle representers (whole-process round trip: not under contract)',
                         'bound': '2 process classes (plain Wait/Continue process, WorkChain with if_/while_), every stop point up to 9 steps, '
                                  'pause / kill / pause+kill, 3 carriers (copy, pickle, YAML): 29 scenarios x 3'}],
            'not_claimed': ['process-level save/load is covered by the bounded search only, not proved',
                            'traceback restoration of EXCEPTED (optional dependency) is excluded by the statement']},
    'C08': {'scans': [], 'trusted': [],
            'bounded': [{'name': 'checkpoint_resume_search', 'recipe': 'checkpoint_resume',
                         'functions': 'whole-run equivalence after restore (Process.step loop, per-state continuation save/load): history property '
                                      'outside per-function contracts',
                         'bound': '4 outlines x 9 oracles and a 4-step Wait/Continue process x 3 input sets; every single crash point and adjacent pairs'}],
            'not_claimed': ['equality of the resumed and the uninterrupted run is shown per stepper (representation invariant + '
                            'save/load contracts); the composition over the whole run is covered by the bounded search only']},
    'C09': {'scans': [], 'trusted': [], 'bounded': [], 'not_claimed': []},
    'C18': {'scans': ['user_code_runs_in_scope', 'hooks_run_in_scope'], 'trusted': [],
            'bounded': [{'name': 'scope_search', 'recipe': 'process_scope',
                         'functions': 'Process.current / _process_scope across concurrently stepping and nested processes (task-local '
                                      'context variables: asyncio, trusted in the contracts)',
                         'bound': '2 concurrently stepping processes, each running a nested process re-entrantly, sampled before / after an '
                                  'await, in a continuation, in a call_soon callback and in a callback that runs after the last step'}],
            'not_claimed': []},
    'C02': {'scans': [], 'trusted': [],
            'bounded': [{'name': 'control_history_search', 'recipe': 'control_histories', 'args': {'claims': ['C02']},
                         'functions': 'outcome reports of a process killed inside a step (deferred kill path through Process.step)',
                         'bound': 'the control-request histories of C04 (about 2600): the recorded kill text is the text given to kill()'}],
            'not_claimed': []},
    'C03': {'scans': [], 'trusted': [],
            'bounded': [{'name': 'failure_injection_search', 'recipe': 'failure_injection',
                         'functions': 'where a user exception ends up (transition_to / transition_failed / Process.step / callback_excepted / '
                                      'super_check helpers over a live process): history claim outside per-function contracts',
                         'bound': 'one exception injected at each of: step function, continuation, call_soon callback, 11 state hooks (before and '
                                  'after their super() call), a listener, 3 pause/play hooks (direct path) and 2 on the deferred path, 2 construction hooks: 40 runs'},
                        {'name': 'control_history_search', 'recipe': 'control_histories', 'args': {'claims': ['C03']},
                         'functions': 'nothing is reported to the event loop during control-request histories',
                         'bound': 'the control-request histories of C04 (about 2600)'}],
            'not_claimed': []},
    'C04': {'scans': [], 'trusted': [],
            'bounded': [{'name': 'control_history_search', 'recipe': 'control_histories', 'args': {'claims': ['C04']},
                         'functions': 'histories of control requests over the event loop (Process.step / kill / pause / play / resume / '
                                      'interrupt actions interleaved): whole-history claims outside per-function contracts',
                         'bound': 'three-step process (async step awaiting a gate, Wait, Continue); all sequences of up to 3 requests from '
                                  '{pause(msg), pause(), play, kill, resume, cancel of the process future} at 5 points (created, paused at a boundary, '
                                  'inside the running step, inside the waiting step, from a listener while entering the waiting state), each also with '
                                  'the event loop running between the requests, plus every single request on a process RESTORED from a CREATED / '
                                  'WAITING checkpoint: about 2600 histories (thorough: up to 4 requests)'}],
            'not_claimed': []},
    'C05': {'scans': [], 'trusted': [],
            'bounded': [{'name': 'control_history_search', 'recipe': 'control_histories', 'args': {'claims': ['C05']},
                         'functions': 'histories of control requests over the event loop (Process.step / kill / pause / play / resume / '
                                      'interrupt actions interleaved): whole-history claims outside per-function contracts',
                         'bound': 'three-step process (async step awaiting a gate, Wait, Continue); all sequences of up to 3 requests from '
                                  '{pause(msg), pause(), play, kill, resume, cancel of the process future} at 5 points (created, paused at a boundary, '
                                  'inside the running step, inside the waiting step, from a listener while entering the waiting state), each also with '
                                  'the event loop running between the requests, plus every single request on a process RESTORED from a CREATED / '
                                  'WAITING checkpoint: about 2600 histories (thorough: up to 4 requests)'}],
            'not_claimed': []},
    'C01': {'scans': ['allowed_subset_graph', 'state_written_only_by_the_machine'], 'trusted': [],
            'bounded': [{'name': 'lifecycle_program_search', 'recipe': 'lifecycle_programs',
                         'functions': 'whole runs through Process.step / transition_to / the termination hooks and listeners (history over '
                                      'the event loop), for programs ending in each command',
                         'bound': '11 programs (plain value, None, Stop, UnsuccessfulResult, Kill with / without a message, Continue and '
                                  'Wait followed by a value or a Kill, a raising step) with a listener attached: every state entered is an '
                                  'edge of the lifecycle graph, the terminal state is the expected one, exactly one terminal notification'},
                        {'name': 'control_history_search', 'recipe': 'control_histories', 'args': {'claims': ['C01']},
                         'functions': 'Process.step over control-request histories (terminal states are final while the stepping task is parked)',
                         'bound': 'the control-request histories of C04 (about 2600): no step function runs and the state does not change after kill() returned True'}],
            'not_claimed': []},
    'C14': {'scans': [], 'trusted': [],
            'bounded': [{'name': 'pickle_vs_memory_vs_map', 'recipe': 'persister_history',
                         'functions': 'PicklePersister.* (file system, pickle, fnmatch: outside the verifier) and its equivalence with '
                                      'InMemoryPersister',
                         'bound': '2 id families whose text forms are prefixes of one another ([1,12,120,2], [job,job2,x]) x a 13-operation '
                                  'history (save / delete / delete absent / delete twice / delete_process), listing, per-process listing and 3 '
                                  'loads compared with the abstract map after every operation'}],
            'not_claimed': ['PicklePersister is covered by the bounded comparison only']},
    'C20': {'scans': [], 'trusted': [],
            'bounded': [{'name': 'task_outcome_search', 'recipe': 'task_outcomes',
                         'functions': 'futures.create_task (run_coroutine_threadsafe, closure over the loop future) and '
                                      'communications.plum_to_kiwi_future.<on_done>: scheduling is outside the contracts',
                         'bound': '8 ways a scheduled coroutine ends (values incl. falsy ones, an exception, CancelledError raised inside, '
                                  'cancellation of an awaited future, a loop future as value): outcome of the returned future and of its mirror'}],
            'not_claimed': []},
    'C15': {'scans': [], 'trusted': [],
            'bounded': [{'name': 'expose_call_sequences', 'recipe': 'expose_calls',
                         'functions': 'ProcessSpec.expose_inputs / expose_outputs / _expose_ports (class objects as dictionary keys, '
                                      'defaultdict memory: outside the verifier) on top of absorb',
                         'bound': 'inputs / outputs x 2 calls x 5 rules each x namespaces {top level, base, deep.er} x same / different '
                                  'source class x namespace options on the second call: the destination holds the union of what each call '
                                  'selects and the options of every call are applied; exclude+include together refused'},
                        {'name': 'exposed_ports_are_copies', 'recipe': 'absorb_independent',
                         'functions': 'independence of the exposed tree AT EVERY DEPTH (object identity of nested ports and namespaces; the '
                                      'contract of absorb states freshness for the level it builds, the recursion is by its own contract)',
                         'bound': 'one source tree of depth 3 x 9 include/exclude selections: no exposed port object is a source object, later '
                                  'additions to / changes of the source do not show in the copy'}],
            'not_claimed': []},
    'C19': {'scans': [], 'trusted': [],
            'bounded': [{'name': 'savable_round_trips', 'recipe': 'savable_members',
                         'functions': 'Savable.recreate_from / load_instance_state of subclasses, _ensure_persist_configured + the persist() hook '
                                      '(class objects as run-time values: assumed in the contracts), whole save -> load round trips',
                         'bound': 'SavableFuture in 6 states (pending, result, falsy result, None, failed, cancelled) on its own and as a member; '
                                  'one object graph (plain dict / tuple / bound method / nested Savable members), custom loader in the context and '
                                  'recorded in the saved state, recreate_from without a loader, lazily declared members after a parent instance '
                                  'was saved, missing class name / member, foreign bound method'},
                        {'name': 'auto_persist_member_sets', 'recipe': 'auto_persist_members',
                         'functions': 'persistence.auto_persist.<wrapped>, Savable.auto_persist (class objects as values: outside the verifier)',
                         'bound': 'all hierarchies base/sub with <=2 declared names per decorator, <=2 stacked decorators, one direct classmethod call (36 cases)'}],
            'not_claimed': ['recreate_from / load_instance_state of subclasses (class objects as run-time values)',
                            "rebinding of a method member ('m') to the new object beyond getattr(self, name)"]},
    'C13': {
        'scans': [],
        'trusted': [],
        'bounded': [{'name': 'resume_value_search', 'recipe': 'process_resume_values',
                     'functions': 'Wait(f) -> resume(v) -> f(v) end to end (user-defined __eq__ of the value is not modelled in the contracts)',
                     'bound': '8 resume values: none given, None, 0, 42, a string, (), a value whose == is elementwise (refuses a truth value), '
                              'a value that equals everything: the continuation receives exactly that object'}],
        'not_claimed': [],
    },
}
