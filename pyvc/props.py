# -*- coding: utf-8 -*-
"""Per-property registry: syntactic lemmas (scans), trusted base beyond what the engine collects, bounded stand-ins,
clauses of the statement that are not claimed."""

PROPS = {
    'C17': {'scans': [], 'trusted': [], 'bounded': [], 'not_claimed': []},
    'C16': {'scans': [], 'trusted': [], 'bounded': [], 'not_claimed': []},
    'C12': {'scans': [], 'trusted': [], 'bounded': [], 'not_claimed': []},
    'C11': {'scans': [], 'trusted': [], 'bounded': [], 'not_claimed': []},
    'C10': {'scans': [], 'trusted': [], 'bounded': [], 'not_claimed': []},
    'C06': {'scans': [], 'trusted': [], 'bounded': [], 'not_claimed': []},
    'C07': {'scans': [], 'trusted': [], 'bounded': [], 'not_claimed': []},
    'C08': {'scans': [], 'trusted': [], 'bounded': [], 'not_claimed': []},
    'C09': {'scans': [], 'trusted': [], 'bounded': [], 'not_claimed': []},
    'C18': {'scans': ['user_code_runs_in_scope', 'hooks_run_in_scope'], 'trusted': [], 'bounded': [], 'not_claimed': []},
    'C02': {'scans': [], 'trusted': [], 'bounded': [], 'not_claimed': []},
    'C03': {'scans': [], 'trusted': [], 'bounded': [], 'not_claimed': []},
    'C04': {'scans': [], 'trusted': [], 'bounded': [], 'not_claimed': []},
    'C05': {'scans': [], 'trusted': [], 'bounded': [], 'not_claimed': []},
    'C01': {'scans': ['allowed_subset_graph', 'state_written_only_by_the_machine'], 'trusted': [], 'bounded': [], 'not_claimed': []},
    'C14': {'scans': [], 'trusted': [], 'bounded': [], 'not_claimed': []},
    'C20': {'scans': [], 'trusted': [], 'bounded': [], 'not_claimed': []},
    'C15': {'scans': [], 'trusted': [], 'bounded': [], 'not_claimed': []},
    'C19': {'scans': [], 'trusted': [], 'bounded': [], 'not_claimed': []},
    'C13': {
        'scans': [],
        'trusted': [],
        'bounded': [],
        'not_claimed': [],
    },
}
