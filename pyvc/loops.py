# -*- coding: utf-8 -*-
"""pyvc.loops -- loops cut at side-car invariants (sequence loops, dict/set loops, while loops)."""
from __future__ import annotations

import ast
from typing import List

import z3

from . import smt
from .smt import (AND, FALSE, I, NOT, OR, S, TRUE, Val, b_of, boolv, i_of, intv, is_bool, is_int, is_none, is_ref,
                  is_str, none, r_of, ref, s_of, strv)
from .values import (CoroV, IterV, SV, Args, BoolTermV, BoundV, BuiltinV, ClassV, Frame, FuncV, LambdaV, ModuleV, Out, RawV,
                     SeqTermV, St, SuperV, TupleV, Unsupported, V)


class LoopMixin:
    def find_loop_spec(self, fi, node):
        c = self.contracts.by_target.get(fi.qualname) if self.contracts else None
        if c is None:
            return None
        spec = c.loop_specs(self.loop_ordinal(node))
        if spec is None:
            return None
        spec['contract'] = c
        return spec

    def loop_env(self, st: St, spec, extra):
        c = spec['contract']
        env = dict(self.unit_env) if self.cur_unit.qualname == c.target else {}
        env.update(st.loc)
        if st.frame is not None and getattr(st.frame, 'env', None):
            for k, v in st.frame.env.items():
                env.setdefault(k, v)
        env.update(extra)
        env['__old__'] = self.unit_pre
        env['__target_module__'] = self.cur_unit.module
        return env

    def check_inv(self, st: St, spec, extra, which, node):
        c = spec['contract']
        env = self.loop_env(st, spec, extra)
        n = self.loop_ordinal(node)
        for j, inv in enumerate(spec['inv']):
            label, expr = (inv[0].value, inv[1]) if isinstance(inv, tuple) else (f'inv{j}', inv)
            goal = self.spec_bool(st, self.sev(st, expr, env, c.module))
            self.add_obligation('inv', st, goal, f'loop{n}.{label}.{which}', node, detail=ast.unparse(expr))
        if which.startswith('preserved') and spec.get('_mods') is not None and spec.get('_head') is not None:
            self.check_loop_frame(spec['_head'], st, spec['_mods'], n, node)

    def check_loop_frame(self, head, st, mods, n, node):
        """the body of an arbitrary iteration writes only what loop_modifies declares (objects that existed at the head of
        the iteration; what the iteration allocates itself is free)"""
        if mods['all'] or mods.get('user') or mods.get('younger'):
            return
        r = smt.fresh('lfr', smt.Int)
        a = smt.fresh('lfa', smt.Str)
        g_ = lambda rr: mods['guards'].get(rr.get_id(), TRUE)
        excl = [AND(g_(rr), r == rr, a == S(attr)) for (rr, attr) in mods['cells']] + [AND(g_(rr), r == rr) for rr in mods['fields']]
        # objects allocated by earlier iterations (at or above the allocation counter at loop ENTRY) are free: their
        # contents at the head of an arbitrary iteration are unconstrained anyway
        entryA = mods.get('_entryA', head.A)
        goal = z3.Implies(AND(r < entryA, NOT(OR(*excl)) if excl else TRUE),
                          z3.Select(z3.Select(st.H, r), a) == z3.Select(z3.Select(head.H, r), a))
        self.add_obligation('frame', st, goal, f'loop{n}.frame_fields', node, detail='the loop body writes only the attribute cells named by loop_modifies')
        exc2 = [AND(g_(rr), r == rr) for rr in mods['contents']]
        goal2 = z3.Implies(AND(r < entryA, NOT(OR(*exc2)) if exc2 else TRUE),
                           AND(z3.Select(st.DH, r) == z3.Select(head.DH, r), z3.Select(st.DV, r) == z3.Select(head.DV, r),
                               z3.Select(st.DL, r) == z3.Select(head.DL, r), z3.Select(st.LS, r) == z3.Select(head.LS, r)))
        self.add_obligation('frame', st, goal2, f'loop{n}.frame_containers', node, detail='the loop body writes only the containers named by loop_modifies')

    def item_facts(self, st: St, spec, node):
        """loop_item_fact(n, expr): a fact about the current element, proved (obligation) from the invariant and the
        precondition, then assumed and used as a Python-side type hint for the loop variables"""
        c = spec['contract']
        for j, expr in enumerate(spec.get('item', [])):
            env = self.loop_env(st, spec, {})
            goal = self.spec_bool(st, self.sev(st, expr, env, c.module))
            self.add_obligation('inv', st, goal, f'loop{self.loop_ordinal(node)}.item_fact{j}', node, detail=ast.unparse(expr))
            st.assume(goal)
            self.narrow_from_requires(st, expr, st.loc, {}, env, c)

    def assume_inv(self, st: St, spec, extra, node):
        c = spec['contract']
        env = self.loop_env(st, spec, extra)
        for inv in spec['inv']:
            expr = inv[1] if isinstance(inv, tuple) else inv
            st.assume(self.spec_bool(st, self.sev(st, expr, env, c.module)))

    def loop_havoc(self, st: St, spec, body, node, extra_names=()):
        """Forget what the loop body may change: assigned locals and the heap locations it may write."""
        names = self.assigned_names(body) | set(extra_names)
        # earlier iterations may have allocated objects: the allocation counter at the head of an arbitrary iteration is
        # somewhere at or above its value at loop entry (objects in between are 'fresh' with unconstrained contents)
        A0 = st.A
        st.A = smt.fresh('A_loop', smt.Int)
        st.assume(st.A >= A0)
        for n in names:
            if n in st.loc:
                old = st.loc[n]
                t = smt.fresh('lv_' + n, Val)
                nv = SV(t)
                if isinstance(old, SV) and old.cls is not None and old.cls.qualname in ('list', 'dict', 'set') and old.exact \
                        and not self.reassigned(body, n):
                    nv = old  # same container object, contents havocked below if written
                else:
                    st.assume(self.older(st, t))
                st.loc[n] = nv
        c = spec['contract']
        if spec['mod'] is not None:
            env = self.loop_env(st, spec, {})
            mods = self.parse_modifies(st, c, env, spec['mod'])
            self.apply_modifies(st, mods)
            mods['_entryA'] = A0
            spec['_mods'] = mods
            spec['_head'] = st.heap_snapshot()
            return
        # heuristic: only direct mutations of local containers
        writes = self.body_writes(body)
        for kind, name in writes:
            if kind == 'unknown':
                raise Unsupported(f'loop #{self.loop_ordinal(node)} in {self.cur_unit.qualname}: body has effects; add loop_modifies(...)', node)
            v = st.loc.get(name)
            if not isinstance(v, SV):
                raise Unsupported(f'loop body mutates non-symbolic local {name}', node)
            r = r_of(v.term)
            if kind == 'list':
                st.LS = z3.Store(st.LS, r, smt.fresh('lh', smt.SeqV))
            else:
                st.DH = z3.Store(st.DH, r, smt.fresh('lhh', smt.HasMap))
                st.DV = z3.Store(st.DV, r, smt.fresh('lhv', smt.ValMap))
                nl = smt.fresh('lhl', smt.Int)
                st.assume(nl >= 0)
                st.DL = z3.Store(st.DL, r, nl)

    def reassigned(self, body, name):
        for s in body:
            for n in ast.walk(s):
                if isinstance(n, ast.Name) and n.id == name and isinstance(n.ctx, ast.Store):
                    return True
        return False

    PURE_CALLS = {'len', 'isinstance', 'str', 'callable', 'bool', 'type', 'hasattr', 'getattr', 'cast'}
    PURE_METHODS = {'startswith', 'endswith', 'get', 'items', 'keys', 'values', 'split', 'join', 'strip'}

    def body_writes(self, body):
        res = []
        for s in body:
            for n in ast.walk(s):
                if isinstance(n, (ast.Attribute, ast.Subscript)) and isinstance(n.ctx, (ast.Store, ast.Del)):
                    if isinstance(n, ast.Subscript) and isinstance(n.value, ast.Name):
                        res.append(('dict', n.value.id))
                    else:
                        res.append(('unknown', None))
                elif isinstance(n, ast.Call):
                    f = n.func
                    if isinstance(f, ast.Name) and f.id in self.PURE_CALLS:
                        continue
                    if isinstance(f, ast.Attribute) and f.attr in self.PURE_METHODS:
                        continue
                    if isinstance(f, ast.Attribute) and isinstance(f.value, ast.Name) and f.attr in ('append', 'extend'):
                        res.append(('list', f.value.id))
                        continue
                    if isinstance(f, ast.Attribute) and isinstance(f.value, ast.Name) and f.attr in ('add', 'setdefault', 'pop', 'update', 'discard'):
                        res.append(('dict', f.value.id))
                        continue
                    res.append(('unknown', None))
                elif isinstance(n, ast.Await):
                    res.append(('unknown', None))
        return res

    # ------------------------------------------------------------------ for over a sequence
    def for_seq(self, st: St, seq, s: ast.For, spec, it):
        outs = []
        seqv = SeqTermV(seq)
        self.check_inv(st, spec, {'_i': RawV(I(0)), '_seq': seqv}, 'init', s)
        targets = {n.id for n in ast.walk(s.target) if isinstance(n, ast.Name)}
        # arbitrary iteration
        h = st.copy()
        self.loop_havoc(h, spec, s.body, s, targets)
        i = smt.fresh('li', smt.Int)
        it_st = h.copy()
        it_st.assume(AND(i >= 0, i < z3.Length(seq)))
        self.assume_inv(it_st, spec, {'_i': RawV(i), '_seq': seqv}, s)
        elem = seq[i]
        it_st.assume(self.older(it_st, elem))
        # snoc facts the sequence solver does not find by itself (instances of xs[:i+1] = xs[:i] ++ [xs[i]])
        p_i, p_i1 = z3.SubSeq(seq, I(0), i), z3.SubSeq(seq, I(0), i + 1)
        it_st.assume(p_i1 == z3.Concat(p_i, z3.Unit(elem)))
        it_st.assume(z3.SubSeq(p_i1, I(0), z3.Length(p_i1) - 1) == p_i)
        it_st.assume(p_i1[z3.Length(p_i1) - 1] == elem)
        it_st.assume(AND(z3.Length(p_i) == i, z3.Length(p_i1) == i + 1))
        if self.feasible(it_st):
            for a in self.assign(it_st, s.target, self.probe_kind(it_st, SV(elem), 1500)):
                if a.kind != 'ok':
                    outs.append(a)
                    continue
                self.item_facts(a.st, spec, s)
                for o in self.ex_block(a.st, s.body):
                    if o.kind in ('ok', 'cont'):
                        self.check_inv(o.st, spec, {'_i': RawV(i + 1), '_seq': seqv}, 'preserved', s)
                    elif o.kind == 'brk':
                        outs.append(Out('ok', o.st))
                    else:
                        outs.append(o)
        # exit by exhaustion
        ex = h.copy()
        ex.assume(z3.SubSeq(seq, I(0), z3.Length(seq)) == seq)
        self.assume_inv(ex, spec, {'_i': RawV(z3.Length(seq)), '_seq': seqv}, s)
        for t in targets:
            pass
        outs.append(Out('ok', ex))
        return outs

    def for_concrete_inv(self, st: St, items, s: ast.For, spec):
        """Loop over a collection whose elements are known constants (e.g. the reflection summary of dir()): the body
        is verified once per element from the invariant (complete, no bound), without multiplying paths."""
        outs = []
        seqv = SeqTermV(self.seq_of_terms([self.to_term(st, x) for x in items]))
        self.check_inv(st, spec, {'_i': RawV(I(0)), '_seq': seqv}, 'init', s)
        targets = {n.id for n in ast.walk(s.target) if isinstance(n, ast.Name)}
        h = st.copy()
        self.loop_havoc(h, spec, s.body, s, targets)
        for idx, item in enumerate(items):
            it_st = h.copy()
            self.assume_inv(it_st, spec, {'_i': RawV(I(idx)), '_seq': seqv}, s)
            for a in self.assign(it_st, s.target, item):
                if a.kind != 'ok':
                    outs.append(a)
                    continue
                for o in self.ex_block(a.st, s.body):
                    if o.kind in ('ok', 'cont'):
                        self.check_inv(o.st, spec, {'_i': RawV(I(idx + 1)), '_seq': seqv}, f'preserved@{idx}', s)
                    elif o.kind == 'brk':
                        outs.append(Out('ok', o.st))
                    else:
                        outs.append(o)
        ex = h.copy()
        self.assume_inv(ex, spec, {'_i': RawV(I(len(items))), '_seq': seqv}, s)
        outs.append(Out('ok', ex))
        return outs

    # ------------------------------------------------------------------ for over a dict / set (unspecified order)
    def for_dict(self, st: St, it: IterV, s: ast.For, spec):
        outs = []
        d = it.d
        r = r_of(d.term)
        seen0 = z3.K(Val, FALSE)
        self.check_inv(st, spec, {'_seen': RawV(seen0), '_n': RawV(I(0))}, 'init', s)
        targets = {n.id for n in ast.walk(s.target) if isinstance(n, ast.Name)}
        h = st.copy()
        self.loop_havoc(h, spec, s.body, s, targets)
        seen = smt.fresh('seen', smt.HasMap)
        n = smt.fresh('ln', smt.Int)
        k = smt.fresh('lk', Val)
        # the dict iterated over must not change size during iteration (Python raises RuntimeError): we iterate over
        # the membership as it is at the loop head of the arbitrary iteration
        has_now = z3.Select(h.DH, r)
        q = smt.fresh('qk', Val)
        sub = z3.ForAll([q], z3.Implies(z3.Select(seen, q), z3.Select(has_now, q)))
        it_st = h.copy()
        it_st.assume(sub)
        it_st.assume(AND(n >= 0, n < self.dict_len(it_st, r)))
        it_st.assume(AND(z3.Select(has_now, k), NOT(z3.Select(seen, k))))
        self.assume_inv(it_st, spec, {'_seen': RawV(seen), '_n': RawV(n)}, s)
        it_st.keys.append(k)
        if self.feasible(it_st):
            if it.kind == 'dictkeys':
                item = SV(k)
            elif it.kind == 'dictvalues':
                item = SV(self.dict_get(it_st, r, k))
            else:
                val = self.dict_get(it_st, r, k)
                it_st.assume(self.older(it_st, val))
                item = TupleV([SV(k), SV(val)])
            it_st.assume(self.older(it_st, k))
            if isinstance(item, TupleV):
                item = TupleV([self.probe_kind(it_st, x, 1500) for x in item.items])
            else:
                item = self.probe_kind(it_st, item, 1500)
            for a in self.assign(it_st, s.target, item):
                if a.kind != 'ok':
                    outs.append(a)
                    continue
                self.item_facts(a.st, spec, s)
                for o in self.ex_block(a.st, s.body):
                    if o.kind in ('ok', 'cont'):
                        self.check_inv(o.st, spec, {'_seen': RawV(z3.Store(seen, k, TRUE)), '_n': RawV(n + 1)}, 'preserved', s)
                    elif o.kind == 'brk':
                        outs.append(Out('ok', o.st))
                    else:
                        outs.append(o)
        ex = h.copy()
        seen_all = z3.Select(ex.DH, r)
        self.assume_inv(ex, spec, {'_seen': RawV(seen_all), '_n': RawV(self.dict_len(ex, r))}, s)
        outs.append(Out('ok', ex))
        return outs

    def for_getitem(self, st, it, s, spec):
        """iteration of a repository Sequence class (collections.abc.Sequence mix-in __iter__: indices 0,1,.. until
        IndexError) whose __getitem__/__len__ delegate to a private list: same as iterating that list"""
        deleg = self.sequence_delegate(it.cls)
        if deleg is None:
            raise Unsupported(f'iteration over {it.cls.name}: __getitem__/__len__ do not delegate to a private list', s)
        if spec is None:
            raise Unsupported(f'loop #{self.loop_ordinal(s)} in {self.loop_owner.qualname} needs a loop invariant', s)
        lst = self.hload(st, r_of(it.term), deleg)
        st.assume(AND(is_ref(lst), z3.Select(st.CL, r_of(lst)) == I(self.cls('list').id)))
        self.assumptions_used.add(f'{it.cls.name}.{deleg} holds a list (class invariant)')
        return self.for_seq(st, self.list_seq(st, r_of(lst)), s, spec, None)

    # ------------------------------------------------------------------ while
    def while_inv(self, st: St, s: ast.While, spec):
        outs = []
        self.check_inv(st, spec, {}, 'init', s)
        h = st.copy()
        self.loop_havoc(h, spec, s.body, s)
        self.assume_inv(h, spec, {}, s)
        ts, fs, other = self.branch(h, s.test)
        outs.extend(other)
        for t in ts:
            for o in self.ex_block(t, s.body):
                if o.kind in ('ok', 'cont'):
                    self.check_inv(o.st, spec, {}, 'preserved', s)
                elif o.kind == 'brk':
                    outs.append(Out('ok', o.st))
                else:
                    outs.append(o)
        for f in fs:
            outs.append(Out('ok', f))
        return outs
