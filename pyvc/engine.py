# -*- coding: utf-8 -*-
"""pyvc.engine -- symbolic executor / verification-condition generator over the real plumpy source.

Part 1: construction, value helpers, heap primitives.  The expression, statement, call and contract parts
are mixed in from exprs.py, stmts.py, calls.py and contracts.py.
"""
from __future__ import annotations

import ast
import os
from typing import List, Optional

import z3

from . import smt
from .smt import (AND, FALSE, I, NOT, OR, S, TRUE, Val, b_of, boolv, i_of, intv, is_bool, is_int, is_none, is_ref,
                  is_str, none, r_of, ref, s_of, strv)
from .source import ClassInfo, FuncInfo, SourceIndex
from .values import (PropV, SV, Args, BoolTermV, BoundV, BuiltinV, ClassV, Frame, FuncV, LambdaV, ModuleV, Out, RawV,
                     SeqTermV, St, SuperV, TupleV, Unsupported, V)

CONTAINER_CLASSES = ('dict', 'list', 'tuple', 'set', 'frozenset')


class Obligation:
    def __init__(self, name, kind, st: St, goal, detail='', func=None, node=None):
        self.name = name
        self.kind = kind  # 'post' | 'pre' | 'raises' | 'frame' | 'inv' | 'assert' | 'cover'
        self.pc = list(st.pc)
        self.goal = goal
        self.detail = detail
        self.func = func
        self.st = st
        self.node = node
        self.verdict = None
        self.want_sat = kind == 'cover'


class EngineBase:
    def __init__(self, index: SourceIndex, contracts=None, config=None):
        self.index = index
        self.contracts = contracts
        self.config = config or {}
        self.obligations: List[Obligation] = []
        self.assumptions_used: set = set()
        self.abstractions: set = set()
        self.const_ids = {}
        self.const_by_id = {}
        self._next_const = index.first_free_id
        self.EMPTY_TUPLE = self.const_id('builtins.()')
        self.NOTIMPL = self.const_id('builtins.NotImplemented')
        self.max_inline_depth = 12
        self.cur_func: Optional[FuncInfo] = None
        self.global_axioms: List = []
        self.stats = {'paths': 0, 'feas_checks': 0, 'user_calls': 0}
        self._enum_cache = {}

    # ------------------------------------------------------------------ constants
    def const_id(self, name) -> int:
        if name not in self.const_ids:
            self.const_ids[name] = self._next_const
            self.const_by_id[self._next_const] = name
            self._next_const += 1
        return self.const_ids[name]

    def first_heap_id(self):
        return self.index.first_free_id + 100000

    def cls(self, qualname) -> ClassInfo:
        return self.index.classes[qualname]

    # ------------------------------------------------------------------ class facts
    def subclass_ids(self, ci: ClassInfo):
        return [c.id for c in self.index.subclasses(ci)]

    def is_subclass_term(self, cid_term, ci: ClassInfo):
        if ci.qualname == 'object':
            return TRUE
        ids = self.subclass_ids(ci)
        return OR(*[cid_term == I(i) for i in ids])

    def isinstance_term(self, st: St, v: V, ci: ClassInfo):
        """z3 Bool: isinstance(v, ci)"""
        q = ci.qualname
        if isinstance(v, SV):
            t = v.term
            if q == 'object':
                return TRUE
            if q == 'NoneType':
                return is_none(t)
            if q == 'bool':
                return is_bool(t)
            if q == 'int':
                return OR(is_int(t), is_bool(t))
            if q == 'str':
                return is_str(t)
            if q == 'float':
                return FALSE
            if v.kind in ('none', 'bool', 'int', 'str'):
                return FALSE
            if v.cls is not None and ci in v.cls.mro:
                return is_ref(t) if v.kind != 'ref' else TRUE
            return AND(is_ref(t), self.is_subclass_term(z3.Select(st.CL, r_of(t)), ci))
        if isinstance(v, TupleV):
            return z3.BoolVal(q in ('tuple', 'object', 'collections.abc.Sequence'))
        if isinstance(v, ClassV):
            mc = 'type'
            return z3.BoolVal(q in ('type', 'object') or (v.ci.metaclass is not None and q.endswith(v.ci.metaclass.split('.')[-1])))
        if isinstance(v, PropV):
            return z3.BoolVal(q in ('property', 'object'))
        if isinstance(v, (FuncV, LambdaV)):
            return z3.BoolVal(q in ('function', 'object'))
        if isinstance(v, BoundV):
            return z3.BoolVal(q in ('method', 'object'))
        return FALSE

    # ------------------------------------------------------------------ values <-> terms
    def mk(self, term, kind=None, cls=None, exact=False) -> SV:
        return SV(term, kind, cls, exact)

    def py_none(self):
        return SV(none, 'none')

    def py_bool(self, b):
        return SV(boolv(z3.BoolVal(b)) if isinstance(b, bool) else boolv(b), 'bool')

    def py_int(self, i):
        return SV(intv(I(i)) if isinstance(i, int) else intv(i), 'int')

    def py_str(self, s):
        return SV(strv(S(s)) if isinstance(s, str) else strv(s), 'str')

    def class_ref(self, ci: ClassInfo):
        return ref(I(ci.id))

    def func_ref(self, fi: FuncInfo):
        return ref(I(fi.id))

    def alloc(self, st: St, ci: Optional[ClassInfo], init_defaults=True):
        """Allocate a fresh object of class ci.  Returns SV."""
        r = st.A
        st.A = st.A + 1
        if ci is not None:
            st.CL = z3.Store(st.CL, r, I(ci.id))
        v = SV(ref(r), 'ref', ci, exact=True)
        return v

    def to_term(self, st: St, v: V):
        """Materialise any Python-side value as a Val term (allocating where necessary)."""
        if isinstance(v, SV):
            return v.term
        if isinstance(v, ClassV):
            return self.class_ref(v.ci)
        if isinstance(v, FuncV):
            if v.env is None:
                # function objects are constants; their __name__ is what the source says (in every heap)
                st.assume(self.hload(st, I(v.fi.id), '__name__') == strv(S(v.fi.name)))
                return self.func_ref(v.fi)
            return self._materialise(st, v, self.cls('function'))
        if isinstance(v, LambdaV):
            return self._materialise(st, v, self.cls('function'))
        if isinstance(v, BoundV):
            return self._materialise_bound(st, v)
        if isinstance(v, TupleV):
            if not v.items:
                return ref(I(self.EMPTY_TUPLE))
            o = self.alloc(st, self.cls('tuple'))
            seq = self.seq_of_terms([self.to_term(st, x) for x in v.items])
            st.LS = z3.Store(st.LS, r_of(o.term), seq)
            return o.term
        if isinstance(v, BuiltinV):
            return ref(I(self.const_id('builtin:' + v.name)))
        if isinstance(v, PropV):
            return ref(I(self.const_id('property:' + v.getter.qualname)))
        if type(v).__name__ == 'NamedTupleClsV':
            return ref(I(self.const_id('namedtuple:' + v.name)))
        if isinstance(v, ModuleV):
            return ref(I(self.const_id('module:' + v.name)))
        if isinstance(v, BoolTermV):
            return boolv(v.term)
        if isinstance(v, RawV):
            if v.term.sort() == smt.Int:
                return intv(v.term)
            if v.term.sort() == smt.Str:
                return strv(v.term)
            if v.term.sort() == Val:
                return v.term
        return self.to_term_ext(st, v)

    def _materialise(self, st, v, ci):
        for (t, pv) in st.objs:
            if pv is v:
                return ref(t)
        o = self.alloc(st, ci)
        st.objs.append((r_of(o.term), v))
        return o.term

    def _materialise_bound(self, st, v: BoundV):
        """Bound methods are materialised as fresh `method` objects with __self__ and __func__/__name__ fields"""
        for (t, pv) in st.objs:
            if pv is v:
                return ref(t)
        o = self.alloc(st, self.cls('method'))
        r = r_of(o.term)
        self.hstore(st, r, '__self__', self.to_term(st, v.selfv))
        fn = v.fn
        if isinstance(fn, FuncV):
            self.hstore(st, r, '__func__', self.func_ref(fn.fi))
            self.hstore(st, r, '__name__', strv(S(fn.fi.name)))
        elif isinstance(fn, SV):
            self.hstore(st, r, '__func__', fn.term)
        st.objs.append((r, v))
        return o.term

    def seq_of_terms(self, terms):
        if not terms:
            return z3.Empty(smt.SeqV)
        us = [z3.Unit(t) for t in terms]
        if len(us) == 1:
            return us[0]
        return z3.Concat(*us)

    # ------------------------------------------------------------------ heap primitives
    def hload(self, st: St, r, attr):
        a = S(attr) if isinstance(attr, str) else attr
        return z3.Select(z3.Select(st.H, r), a)

    def hstore(self, st: St, r, attr, val):
        a = S(attr) if isinstance(attr, str) else attr
        st.H = z3.Store(st.H, r, z3.Store(z3.Select(st.H, r), a, val))

    def older(self, st: St, term):
        """fact: any ref read out of the heap was allocated before now"""
        r = r_of(term)
        c = z3.Select(st.CL, r)
        low = AND(r >= 1, z3.Implies(r < I(self.index.first_free_id),
                                     OR(c == I(self.cls('type').id), c == I(self.cls('function').id))))
        return z3.Implies(is_ref(term), AND(r < st.A, low))

    def dict_has(self, st, r, k):
        return z3.Select(z3.Select(st.DH, r), k)

    def dict_get(self, st, r, k):
        return z3.Select(z3.Select(st.DV, r), k)

    def dict_len(self, st, r):
        ln = z3.Select(st.DL, r)
        if not z3.is_int_value(smt.simp(ln)):
            st.assume(ln >= 0)      # a length is never negative (instance fact: havocked lengths are otherwise arbitrary integers)
        return ln

    def dict_set(self, st: St, r, k, v):
        had = self.dict_has(st, r, k)
        st.DL = z3.Store(st.DL, r, z3.If(had, self.dict_len(st, r), self.dict_len(st, r) + 1))
        st.DH = z3.Store(st.DH, r, z3.Store(z3.Select(st.DH, r), k, TRUE))
        st.DV = z3.Store(st.DV, r, z3.Store(z3.Select(st.DV, r), k, v))
        st.keys.append(k)
        # ghost ownership: a container created in this unit and stored into an owned container becomes owned with it
        own = st.ghost.get('OWN')
        pre = getattr(self, 'unit_pre', None)
        if own is not None and pre is not None and not z3.is_false(smt.simp(is_ref(v))):
            rv = r_of(v)
            st.ghost['OWN'] = z3.Store(own, rv, OR(z3.Select(own, rv), AND(is_ref(v), z3.Select(own, r), rv >= pre.A)))

    def dict_del(self, st: St, r, k):
        had = self.dict_has(st, r, k)
        st.DL = z3.Store(st.DL, r, z3.If(had, self.dict_len(st, r) - 1, self.dict_len(st, r)))
        st.DH = z3.Store(st.DH, r, z3.Store(z3.Select(st.DH, r), k, FALSE))
        st.keys.append(k)

    def dict_key_facts(self, st: St, r, k):
        """instance axioms relating DictLen and DictHas for key k"""
        st.keys.append(k)
        has = self.dict_has(st, r, k)
        ln = self.dict_len(st, r)
        st.assume(ln >= 0)
        st.assume(z3.Implies(has, ln >= 1))

    def new_dict(self, st: St, ci=None):
        o = self.alloc(st, ci or self.cls('dict'))
        r = r_of(o.term)
        st.DH = z3.Store(st.DH, r, z3.K(Val, FALSE))
        st.DL = z3.Store(st.DL, r, I(0))
        return o

    def new_list(self, st: St, seq=None, ci=None):
        o = self.alloc(st, ci or self.cls('list'))
        st.LS = z3.Store(st.LS, r_of(o.term), seq if seq is not None else z3.Empty(smt.SeqV))
        return o

    def list_seq(self, st: St, r):
        return z3.Select(st.LS, r)

    # ------------------------------------------------------------------ feasibility / forking
    def feasible(self, st: St, extra=None) -> bool:
        self.stats['feas_checks'] += 1
        asserts = self.global_axioms + st.pc + ([extra] if extra is not None else [])
        return smt.quick_feasible(asserts)

    def entails(self, st: St, goal, timeout_ms=400) -> bool:
        """cheap check pc => goal (True only if proved)"""
        self.stats['feas_checks'] += 1
        s = z3.Solver()
        s.set('rlimit', 2000000)
        s.set('timeout', timeout_ms)
        for a in self.global_axioms + st.pc:
            s.add(a)
        s.add(NOT(goal))
        return s.check() == z3.unsat

    def fork(self, st: St, cond):
        """Split st on z3 Bool cond -> (st_true or None, st_false or None)"""
        cond = smt.simp(cond)
        if z3.is_true(cond):
            return st, None
        if z3.is_false(cond):
            return None, st
        t = f = None
        if self.feasible(st, cond):
            t = st.copy()
            t.assume(cond)
        if self.feasible(st, NOT(cond)):
            f = st.copy()
            f.assume(NOT(cond))
        return t, f

    # ------------------------------------------------------------------ exceptions
    def make_exc(self, st: St, qualname: str, msg: Optional[str] = None):
        ci = self.cls(qualname)
        o = self.alloc(st, ci)
        return o

    def raise_new(self, st: St, qualname: str, msg=None) -> Out:
        if os.environ.get('PYVC_TRACE_RAISE') == qualname:
            import traceback
            print('RAISE', qualname, 'from:')
            traceback.print_stack(limit=int(os.environ.get('PYVC_TRACE_DEPTH', '6')))
        st = st.copy()
        e = self.make_exc(st, qualname, msg)
        return Out('raise', st, e)

    # ------------------------------------------------------------------ truthiness
    def truthy(self, st: St, v: V):
        """z3 Bool for bool(v); containers by length; objects of table classes defining __bool__/__len__ are
        handled by the caller (ev_truth)."""
        if isinstance(v, BoolTermV):
            return v.term
        if isinstance(v, SV):
            t = v.term
            if v.kind == 'none':
                return FALSE
            if v.kind == 'bool':
                return smt.simp(b_of(t))
            if v.kind == 'int':
                return i_of(t) != 0
            if v.kind == 'str':
                return z3.Length(s_of(t)) > 0
            refcase = self._truthy_ref(st, v)
            if v.kind == 'ref':
                return refcase
            return z3.If(is_none(t), FALSE,
                         z3.If(is_bool(t), b_of(t),
                               z3.If(is_int(t), i_of(t) != 0,
                                     z3.If(is_str(t), z3.Length(s_of(t)) > 0, refcase))))
        if isinstance(v, TupleV):
            return z3.BoolVal(len(v.items) > 0)
        if isinstance(v, (ClassV, FuncV, LambdaV, BoundV, ModuleV, BuiltinV)):
            return TRUE
        if isinstance(v, RawV) and v.term.sort() == smt.Bool:
            return v.term
        raise Unsupported(f'truthiness of {v!r}')

    def _truthy_ref(self, st, v: SV):
        r = r_of(v.term)
        if v.cls is not None and v.cls.qualname in ('dict', 'set', 'frozenset'):
            return self.dict_len(st, r) > 0
        if v.cls is not None and v.cls.qualname in ('list', 'tuple'):
            return z3.Length(self.list_seq(st, r)) > 0
        if v.cls is not None and v.exact:
            return TRUE
        c = z3.Select(st.CL, r)
        dictlike = OR(*[c == I(self.cls(q).id) for q in ('dict', 'set', 'frozenset')])
        listlike = OR(*[c == I(self.cls(q).id) for q in ('list', 'tuple')])
        return z3.If(dictlike, self.dict_len(st, r) > 0, z3.If(listlike, z3.Length(self.list_seq(st, r)) > 0, TRUE))

    # ------------------------------------------------------------------ equality
    def py_eq_term(self, st: St, a: V, b: V):
        """z3 Bool for a == b where neither side's class defines __eq__ (checked by caller).
        Primitives structurally; bool/int cross-compare numerically; objects by identity."""
        if isinstance(a, SV) and isinstance(b, SV) and a.kind == 'str' and b.kind == 'str':
            return smt.simp(s_of(a.term)) == smt.simp(s_of(b.term))
        if isinstance(a, SV) and isinstance(b, SV) and 'str' in (a.kind, b.kind) or \
                isinstance(a, SV) and isinstance(b, SV) and 'none' in (a.kind, b.kind):
            return self.to_term(st, a) == self.to_term(st, b)
        ta, tb = self.to_term(st, a), self.to_term(st, b)
        num = lambda t: z3.If(is_bool(t), z3.If(b_of(t), I(1), I(0)), i_of(t))
        isnum = lambda t: OR(is_int(t), is_bool(t))
        return OR(ta == tb, AND(isnum(ta), isnum(tb), num(ta) == num(tb)))

    def note(self, what):
        self.abstractions.add(what)
