# -*- coding: utf-8 -*-
"""pyvc.smt -- SMT vocabulary: the value datatype, heap sorts, solver drivers (z3 primary, cvc5 on z3's unknowns)."""
from __future__ import annotations

import os
import re
import subprocess
import tempfile
import time

import z3

z3.set_param('pp.max_depth', 40)

# ---------------------------------------------------------------------------------------------- sorts
_Val = z3.Datatype('Val')
_Val.declare('none')
_Val.declare('boolv', ('b', z3.BoolSort()))
_Val.declare('intv', ('i', z3.IntSort()))
_Val.declare('strv', ('s', z3.StringSort()))
_Val.declare('ref', ('r', z3.IntSort()))
Val = _Val.create()

none = Val.none
boolv = Val.boolv
intv = Val.intv
strv = Val.strv
ref = Val.ref
is_none = Val.is_none
is_bool = Val.is_boolv
is_int = Val.is_intv
is_str = Val.is_strv
is_ref = Val.is_ref
b_of = Val.b
i_of = Val.i
s_of = Val.s
r_of = Val.r

Int = z3.IntSort()
Bool = z3.BoolSort()
Str = z3.StringSort()
SeqV = z3.SeqSort(Val)
AttrMap = z3.ArraySort(Str, Val)
HeapSort = z3.ArraySort(Int, AttrMap)
HasMap = z3.ArraySort(Val, Bool)
ValMap = z3.ArraySort(Val, Val)
DHSort = z3.ArraySort(Int, HasMap)
DVSort = z3.ArraySort(Int, ValMap)
DLSort = z3.ArraySort(Int, Int)
LSSort = z3.ArraySort(Int, SeqV)
CLSort = z3.ArraySort(Int, Int)

TRUE = z3.BoolVal(True)
FALSE = z3.BoolVal(False)

_cnt = [0]


def fresh(prefix, sort):
    _cnt[0] += 1
    return z3.Const(f'{prefix}!{_cnt[0]}', sort)


def reset_names():
    _cnt[0] = 0


def S(s: str):
    return z3.StringVal(s)


def I(i: int):
    return z3.IntVal(i)


def simp(t):
    return z3.simplify(t)


def AND(*xs):
    xs = [x for x in xs if not z3.is_true(x)]
    if not xs:
        return TRUE
    if len(xs) == 1:
        return xs[0]
    return z3.And(*xs)


def OR(*xs):
    xs = [x for x in xs if not z3.is_false(x)]
    if not xs:
        return FALSE
    if len(xs) == 1:
        return xs[0]
    return z3.Or(*xs)


def NOT(x):
    if z3.is_true(x):
        return FALSE
    if z3.is_false(x):
        return TRUE
    return z3.Not(x)


# ---------------------------------------------------------------------------------------------- solving
class Verdict:
    def __init__(self, status, backend, seconds, model=None, reason=''):
        self.status = status  # 'unsat' | 'sat' | 'unknown'
        self.backend = backend
        self.seconds = seconds
        self.model = model
        self.reason = reason


Z3_RLIMIT = int(os.environ.get('PYVC_Z3_RLIMIT', '40000000'))
Z3_TIMEOUT_MS = int(os.environ.get('PYVC_Z3_TIMEOUT_MS', '30000'))
CVC5_TIMEOUT_S = int(os.environ.get('PYVC_CVC5_TIMEOUT_S', '30'))
CVC5_BIN = os.environ.get('PYVC_CVC5', '/usr/bin/cvc5')


def make_solver():
    s = z3.Solver()
    s.set('rlimit', Z3_RLIMIT)
    s.set('timeout', Z3_TIMEOUT_MS)
    return s


def check_sat(assertions, want_model=True, use_cvc5=True, seeds=(0, 7)) -> Verdict:
    """Satisfiability of the conjunction.  z3 first (deterministic rlimit); on unknown retry with another seed,
    then cvc5 on the exported SMT-LIB2."""
    t0 = time.time()
    last_reason = ''
    s0 = make_solver()
    s0.set('mbqi', False)
    s0.set('timeout', 8000)
    for a in assertions:
        s0.add(a)
    if s0.check() == z3.unsat:
        return Verdict('unsat', 'z3-ematch', time.time() - t0)
    for seed in seeds:
        s = make_solver()
        if seed:
            s.set('random_seed', seed)
            s.set('smt.random_seed', seed) if False else None
        for a in assertions:
            s.add(a)
        r = s.check()
        if r == z3.unsat:
            return Verdict('unsat', 'z3', time.time() - t0)
        if r == z3.sat:
            if model_validates(s):
                return Verdict('sat', 'z3', time.time() - t0, s.model() if want_model else None)
            last_reason = 'z3 reported sat but its model does not satisfy the assertions (treated as unknown)'
            continue
        last_reason = s.reason_unknown()
    if use_cvc5:
        v = cvc5_check(assertions)
        v.seconds = time.time() - t0
        if v.status != 'unknown':
            return v
        last_reason += ' | cvc5: ' + v.reason
    return Verdict('unknown', 'z3+cvc5' if use_cvc5 else 'z3', time.time() - t0, None, last_reason)


def model_validates(s) -> bool:
    """z3 can answer `sat` with a model that does not satisfy the input when lambdas / sequences / quantifiers interact;
    a counter-model is believed only if every quantifier-free assertion evaluates to true in it"""
    try:
        m = s.model()
        for a in s.assertions():
            if has_quantifier(a):
                continue
            v = m.eval(a, model_completion=True)
            if z3.is_false(v):
                return False
        return True
    except z3.Z3Exception:
        return False


PORTFOLIO = [
    # (label, solver params, timeout ms, trust sat?)
    ('z3-ematch', {'mbqi': False}, 8000, False),
    ('z3', {}, Z3_TIMEOUT_MS, True),
    ('z3-seed7', {'random_seed': 7}, Z3_TIMEOUT_MS, True),
]


def check_sat_text(text: str, use_cvc5=True, seeds=(0, 7)) -> Verdict:
    """Satisfiability of an exported SMT-LIB2 problem, each attempt in a fresh z3 context (worker processes).
    Portfolio: z3 with E-matching only (only `unsat` is conclusive there), z3 default, another seed, then cvc5."""
    t0 = time.time()
    last = ''
    cvc5_done = False
    for label, params, tmo, trust_sat in PORTFOLIO:
        if label == 'z3' and use_cvc5 and not cvc5_done:
            cvc5_done = True
            v = cvc5_check_text(text, 20)
            if v.status != 'unknown':
                v.seconds = time.time() - t0
                return v
            last += ' | cvc5: ' + v.reason
        ctx = z3.Context()
        s = z3.Solver(ctx=ctx)
        s.set('rlimit', Z3_RLIMIT)
        s.set('timeout', tmo)
        for k, v in params.items():
            s.set(k, v)
        s.from_string(text)
        r = s.check()
        if r == z3.unsat:
            return Verdict('unsat', label, time.time() - t0)
        if r == z3.sat and trust_sat:
            if model_validates(s):
                return Verdict('sat', label, time.time() - t0)
            last = 'z3 reported sat but its model does not satisfy the assertions (treated as unknown)'
            continue
        last = str(s.reason_unknown()) if r != z3.sat else 'sat without model-based quantifier check'
    if use_cvc5:
        v = cvc5_check_text(text)
        v.seconds = time.time() - t0
        if v.status != 'unknown':
            return v
        last += ' | cvc5: ' + v.reason
    return Verdict('unknown', 'z3+cvc5' if use_cvc5 else 'z3', time.time() - t0, None, last)


def to_smt2(assertions) -> str:
    s = z3.Solver()
    for a in assertions:
        s.add(a)
    txt = s.to_smt2()
    return txt


def cvc5_check(assertions, timeout=None) -> Verdict:
    return cvc5_check_text(to_smt2(assertions), timeout)


def cvc5_check_text(txt, timeout=None) -> Verdict:
    t0 = time.time()
    # z3 prints its internal in-range variant of seq.nth; cvc5 knows only seq.nth (equal on in-range indices)
    txt = '(set-logic ALL)\n' + txt.replace('seq.nth_i', 'seq.nth').replace('seq.nth_u', 'seq.nth')
    txt = re.sub(r'\(_ (spec_\w+) \d+\)', r'\1', txt)  # z3's notation for recursive occurrences
    with tempfile.NamedTemporaryFile('w', suffix='.smt2', delete=False, dir=os.environ.get('PYVC_TMP', None)) as fh:
        fh.write(txt)
        path = fh.name
    try:
        try:
            out = subprocess.run(
                [CVC5_BIN, '--strings-exp', '--tlimit=%d' % ((timeout or CVC5_TIMEOUT_S) * 1000), path],
                capture_output=True, text=True, timeout=(timeout or CVC5_TIMEOUT_S) + 10,
            )
        except subprocess.TimeoutExpired:
            return Verdict('unknown', 'cvc5', time.time() - t0, None, 'timeout')
        res = out.stdout.strip().splitlines()
        first = res[0].strip() if res else ''
        if first == 'unsat':
            return Verdict('unsat', 'cvc5', time.time() - t0)
        if first == 'sat':
            return Verdict('sat', 'cvc5', time.time() - t0, None, 'cvc5 sat (no model extraction)')
        return Verdict('unknown', 'cvc5', time.time() - t0, None, (first + ' ' + out.stderr.strip())[:300])
    finally:
        try:
            os.unlink(path)
        except OSError:
            pass


_hq_cache = {}


def has_quantifier(e) -> bool:
    k = e.get_id()
    if k in _hq_cache:
        return _hq_cache[k]
    res = False
    stack = [e]
    seen = set()
    while stack:
        x = stack.pop()
        i = x.get_id()
        if i in seen:
            continue
        seen.add(i)
        if z3.is_quantifier(x) and not x.is_lambda():
            res = True
            break
        if z3.is_quantifier(x):
            stack.append(x.body())
        else:
            stack.extend(x.children())
    _hq_cache[k] = res
    return res


def mentions(e, consts) -> bool:
    """does term e contain any of the given constants?"""
    ids = {c.get_id() for c in consts}
    stack = [e]
    seen = set()
    while stack:
        x = stack.pop()
        i = x.get_id()
        if i in seen:
            continue
        seen.add(i)
        if i in ids:
            return True
        if z3.is_quantifier(x):
            stack.append(x.body())
        else:
            stack.extend(x.children())
    return False


_abs_cache = {}


def abstract_quantifiers(e):
    """replace every (non-lambda) quantified sub-formula by a fresh propositional constant: an over-approximation"""
    k = e.get_id()
    if k in _abs_cache:
        return _abs_cache[k]
    if not has_quantifier(e):
        _abs_cache[k] = e
        return e
    subs = []
    stack = [e]
    seen = set()
    while stack:
        x = stack.pop()
        i = x.get_id()
        if i in seen:
            continue
        seen.add(i)
        if z3.is_quantifier(x) and not x.is_lambda():
            subs.append((x, z3.Bool(f'qabs!{i}')))
        elif z3.is_quantifier(x):
            continue
        else:
            stack.extend(x.children())
    res = z3.substitute(e, *subs) if subs else e
    _abs_cache[k] = res
    return res


def quick_feasible(assertions, rlimit=2000000, timeout_ms=600) -> bool:
    """Cheap feasibility pre-check used at branches.  Returns False only if z3 proves unsat.  Quantified facts are
    left out (a sound over-approximation of feasibility: an infeasible path explored anyway only yields obligations
    with an unsatisfiable path condition)."""
    s = z3.Solver()
    s.set('rlimit', rlimit)
    s.set('timeout', timeout_ms)
    for a in assertions:
        s.add(abstract_quantifiers(a))
    return s.check() != z3.unsat
