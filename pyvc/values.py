# -*- coding: utf-8 -*-
"""pyvc.values -- Python-side value domain of the symbolic executor and the symbolic state."""
from __future__ import annotations

from typing import Dict, List, Optional

import z3

from . import smt
from .smt import Val


class V:
    pass


class SV(V):
    """A symbolic Python value: a z3 term of sort Val, with sound Python-side hints."""

    __slots__ = ('term', 'kind', 'cls', 'exact', 'tag', 'origin')

    def __init__(self, term, kind=None, cls=None, exact=False, tag=None):
        self.tag = tag
        self.origin = None  # (receiver value, attribute name) when the value was read as `receiver.name` from the heap
        self.term = term
        self.kind = kind  # None | 'none' | 'bool' | 'int' | 'str' | 'ref'
        self.cls = cls  # ClassInfo upper bound of the dynamic class (for refs), or None
        self.exact = exact  # dynamic class is exactly cls

    def __repr__(self):
        c = self.cls.name if self.cls is not None else ''
        return f'SV({self.term}{":" + str(self.kind) if self.kind else ""}{":" + c if c else ""})'


class ClassV(V):
    def __init__(self, ci):
        self.ci = ci

    def __repr__(self):
        return f'ClassV({self.ci.qualname})'


class FuncV(V):
    def __init__(self, fi, env=None, cls_ctx=None):
        self.fi = fi
        self.env = env  # captured locals (snapshot) for nested functions / lambdas
        self.cls_ctx = cls_ctx

    def __repr__(self):
        return f'FuncV({self.fi.qualname})'


class LambdaV(V):
    def __init__(self, node, env, frame):
        self.node = node
        self.env = env
        self.frame = frame


class BoundV(V):
    def __init__(self, fn, selfv):
        self.fn = fn
        self.selfv = selfv

    def __repr__(self):
        return f'BoundV({self.fn},{self.selfv})'


class ModuleV(V):
    def __init__(self, name):
        self.name = name

    def __repr__(self):
        return f'ModuleV({self.name})'


class BuiltinV(V):
    def __init__(self, name):
        self.name = name

    def __repr__(self):
        return f'BuiltinV({self.name})'


class PropV(V):
    """a `property` object of a repository class, as seen through the class (getattr(cls, name))"""

    def __init__(self, getter, setter):
        self.getter = getter
        self.setter = setter


class NamedTupleClsV(V):
    """a class made by collections.namedtuple(name, fields) at module level"""

    def __init__(self, name, fields):
        self.name = name
        self.fields = list(fields)


class TupleV(V):
    def __init__(self, items):
        self.items = list(items)

    def __repr__(self):
        return f'TupleV({self.items})'


class SuperV(V):
    def __init__(self, after, selfv, dyn_cls=None):
        self.after = after
        self.selfv = selfv


class SeqTermV(V):
    """A z3 Seq(Val) term used as a first-class spec value (contracts only)."""

    def __init__(self, term):
        self.term = term


class BoolTermV(V):
    """A z3 Bool term used as a spec value (contracts only)."""

    def __init__(self, term):
        self.term = term


class RawV(V):
    """Any other z3 term (spec mode): ints, arrays, datatypes declared by contract files."""

    def __init__(self, term):
        self.term = term


class IterV(V):
    def __init__(self, kind, items=None, seq=None, d=None):
        self.kind = kind  # 'concrete' | 'seq' | 'dictkeys' | 'dictitems' | 'dictvalues'
        self.items = items
        self.seq = seq
        self.d = d


class CoroV(V):
    """A coroutine object: an async function applied to arguments, not yet run"""

    def __init__(self, fv, args, node=None):
        self.fv = fv
        self.args = args
        self.node = node


class Args:
    def __init__(self, pos=None, tail=None, kw=None, kwrest=None):
        self.pos: List[V] = list(pos or [])
        self.tail = tail  # z3 Seq(Val) term or None
        self.kw: Dict[str, V] = dict(kw or {})
        self.kwrest = kwrest  # SV (dict ref) or None


class Frame:
    __slots__ = ('fi', 'selfv', 'cls_ctx', 'exc', 'module', 'env', 'parent', 'spec')

    def __init__(self, fi, selfv=None, cls_ctx=None, exc=None, module=None):
        self.env = None
        self.parent = None
        self.spec = False
        self.fi = fi
        self.selfv = selfv
        self.cls_ctx = cls_ctx
        self.exc = exc  # exception currently being handled (V) or None
        self.module = module


class St:
    """Symbolic state of one execution path."""

    __slots__ = ('pc', 'H', 'DH', 'DV', 'DL', 'LS', 'CL', 'A', 'TR', 'loc', 'frame', 'objs', 'ghost', 'old',
                 'keys', 'notes', 'depth', 'spec_pre')

    def __init__(self):
        self.pc: List[z3.BoolRef] = []
        self.H = None
        self.DH = None
        self.DV = None
        self.DL = None
        self.LS = None
        self.CL = None
        self.A = None  # allocation counter (Int term): every allocated object has ref < A
        self.TR = None  # ghost trace of user calls: Seq(Val) of event refs
        self.loc: Dict[str, V] = {}
        self.frame: Optional[Frame] = None
        self.objs: list = []  # registry [(int term, V)] of Python-side callables materialised as refs
        self.ghost: Dict[str, object] = {}
        self.old: Optional['St'] = None
        self.keys: list = []  # Val terms used as dict keys on this path (for model dumps)
        self.notes: list = []
        self.depth = 0
        self.spec_pre = None

    def copy(self) -> 'St':
        n = St()
        n.pc = list(self.pc)
        n.H, n.DH, n.DV, n.DL, n.LS, n.CL, n.A, n.TR = self.H, self.DH, self.DV, self.DL, self.LS, self.CL, self.A, self.TR
        n.loc = dict(self.loc)
        n.frame = self.frame
        n.objs = list(self.objs)
        n.ghost = dict(self.ghost)
        n.old = self.old
        n.keys = list(self.keys)
        n.notes = list(self.notes)
        n.depth = self.depth
        n.spec_pre = self.spec_pre
        return n

    def heap_snapshot(self) -> 'St':
        """A frozen copy used as the `old` state"""
        n = self.copy()
        n.old = None
        return n

    def assume(self, c):
        if z3.is_true(c):
            return
        if z3.is_and(c):
            for x in c.children():
                self.assume(x)
            return
        i = c.get_id()
        for x in self.pc[-60:]:
            if x.get_id() == i:
                return
        self.pc.append(c)

    @staticmethod
    def initial(tag='0'):
        st = St()
        st.H = z3.Const(f'H{tag}', smt.HeapSort)
        st.DH = z3.Const(f'DH{tag}', smt.DHSort)
        st.DV = z3.Const(f'DV{tag}', smt.DVSort)
        st.DL = z3.Const(f'DL{tag}', smt.DLSort)
        st.LS = z3.Const(f'LS{tag}', smt.LSSort)
        st.CL = z3.Const(f'CL{tag}', smt.CLSort)
        st.A = z3.Const(f'A{tag}', smt.Int)
        st.TR = z3.Const(f'TR{tag}', smt.SeqV)
        st.ghost['OWN'] = z3.Const(f'OWN{tag}', z3.ArraySort(smt.Int, smt.Bool))
        return st


class Out:
    __slots__ = ('kind', 'st', 'val', 'token')

    def __init__(self, kind, st, val=None):
        self.token = None
        self.kind = kind  # 'ok' | 'ret' | 'raise' | 'brk' | 'cont'
        self.st = st
        self.val = val

    def __repr__(self):
        return f'Out({self.kind},{self.val})'


class Unsupported(Exception):
    def __init__(self, msg, node=None):
        super().__init__(msg)
        self.node = node
