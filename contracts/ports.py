# -*- coding: utf-8 -*-
"""Side-car contracts for plumpy.ports (C11, C12, C15).  Parsed with ast by pyvc; never executed."""
from plumpy.ports import UNSPECIFIED, InputPort, Port, PortNamespace


@spec_rec
def strip_spec(s: 'seq', p: 'str') -> 'seq':
    """DESIGN D.4: the rules lying strictly below namespace+separator, stripped of exactly that prefix, in order"""
    x = sval(last(s))
    return empty_seq() if len(s) == 0 else concat(
        strip_spec(take(s, len(s) - 1), p),
        unit(str_(substr(x, strlen(p), strlen(x) - strlen(p)))) if prefixof(p, x) else empty_seq())


@contract('plumpy.ports.PortNamespace.strip_namespace', props=['C15'])
def strip_namespace(namespace, separator, rules):
    requires(is_str(namespace) and is_str(separator))
    requires(rules is None or is_list(rules) or is_tuple(rules))
    requires(rules is None or forall('int', lambda i: implies(0 <= i and i < len(seq(rules)), is_str(seq(rules)[i]))))
    prefix = sval(namespace) + sval(separator)
    raises_nothing()
    modifies()
    ensures('none_passthrough', implies(rules is None, result is None))
    ensures('fresh_list', implies(rules is not None, is_list(result) and fresh(result)))
    ensures('stripped', implies(rules is not None, seq(result) == strip_spec(seq(rules), prefix)))
    loop_invariant(0, 'islist', is_list(stripped) and fresh(stripped))
    loop_invariant(0, 'stripped', seq(stripped) == strip_spec(take(_seq, _i), prefix))
