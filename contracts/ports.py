# -*- coding: utf-8 -*-
"""Side-car contracts for plumpy.ports (C11, C12, C15).  Parsed with ast by pyvc; never executed."""
from plumpy.ports import UNSPECIFIED, InputPort, Port, PortNamespace


@spec_rec
def strip_spec(s: 'seq', p: 'str') -> 'seq':
    """DESIGN D.4: the rules lying strictly below namespace+separator, stripped of exactly that prefix, in order"""
    x = sval(last(s))
    return empty_seq() if len(s) == 0 else concat(
        strip_spec(take(s, len(s) - 1), p),
        unit(str_(substr(x, strlen(p), strlen(x) - strlen(p)))) if prefixof(p, x) else empty_seq())


@contract('plumpy.ports.PortNamespace.strip_namespace', props=['C15'])
def strip_namespace(namespace, separator, rules):
    requires(is_str(namespace) and is_str(separator))
    requires(rules is None or is_list(rules) or is_tuple(rules))
    requires(rules is None or forall('int', lambda i: implies(0 <= i and i < len(seq(rules)), is_str(seq(rules)[i]))))
    prefix = sval(namespace) + sval(separator)
    raises_nothing()
    modifies()
    ensures('none_passthrough', implies(rules is None, result is None))
    ensures('fresh_list', implies(rules is not None, is_list(result) and fresh(result)))
    ensures('stripped', implies(rules is not None, seq(result) == strip_spec(seq(rules), prefix)))
    ensures('all_str', implies(rules is not None, forall('int', lambda i: implies(0 <= i and i < len(seq(result)), is_str(seq(result)[i])))))
    replay('stripped', 'strip_namespace_spec')
    replay('loop0.stripped.preserved', 'strip_namespace_spec')
    loop_invariant(0, 'islist', is_list(stripped) and fresh(stripped))
    loop_invariant(0, 'all_str', forall('int', lambda i: implies(0 <= i and i < len(seq(stripped)), is_str(seq(stripped)[i]))))
    loop_invariant(0, 'stripped', seq(stripped) == strip_spec(take(_seq, _i), prefix))


# ------------------------------------------------------------------------------------------------ absorb (C15)
CONFIG = {
    'attr_types': {
        'plumpy.ports.PortNamespace._ports': 'dict',
    },
    'class_invariants': {'plumpy.ports.PortNamespace': 'wf_ns'},
    'user_havoc': 'all',
    'protected_classes': ['plumpy.ports.Port'],
}


@spec
def wf_ns(ns):
    """class invariant of PortNamespace (established by __init__/__setitem__): `_ports` maps names to Port objects"""
    return (is_dict(ns._ports) and dlen(ns._ports) >= 0
            and forall(lambda k: implies(dhas(ns._ports, k), is_str(k) and isinstance(dget(ns._ports, k), Port))))


@spec
def str_seq(xs):
    return (is_list(xs) or is_tuple(xs)) and forall('int', lambda i: implies(0 <= i and i < len(seq(xs)), is_str(seq(xs)[i])))


@spec
def names_or_below(rules, name):
    """DESIGN D.4: some rule names `name` itself or a path strictly below it -- component-wise, never by bare string prefix"""
    return exists('int', lambda i: 0 <= i and i < len(seq(rules))
                  and (sval(seq(rules)[i]) == sval(name) or prefixof(sval(name) + '.', sval(seq(rules)[i]))))


@spec
def kept(name, is_ns, exclude, include):
    """DESIGN D.4, one level: is the source port `name` selected by the rules?"""
    return (not (exclude is not None and len(seq(exclude)) > 0 and contains(seq(exclude), name))
            and implies(include is not None and len(seq(include)) > 0,
                        (names_or_below(include, name) if is_ns else contains(seq(include), name))))


@contract('plumpy.ports.PortNamespace.absorb', props=['C15'], ghost=['N'])
def absorb(self, port_namespace, exclude=None, include=None, namespace_options=None, N=None):
    """N is a ghost: an arbitrary port name.  Every clause is proved for arbitrary N, i.e. for all names."""
    requires(type_is(self, PortNamespace) and type_is(port_namespace, PortNamespace) and self is not port_namespace)
    requires(self._ports is not port_namespace._ports)
    requires(exclude is None or str_seq(exclude))
    requires(include is None or str_seq(include))
    requires(namespace_options is None or (is_dict(namespace_options) and dlen(namespace_options) >= 0
                                           and namespace_options is not self._ports and namespace_options is not port_namespace._ports))
    requires(is_str(N))
    src = port_namespace._ports
    modifies(fields(self), contents(self._ports), contents(namespace_options))
    raises(ValueError, (exclude is not None and include is not None)
           or (namespace_options is not None and old(dlen(namespace_options)) > 0))
    ensures('mutually_exclusive', exclude is None or include is None)
    ensures('ports_dict_kept', self._ports is old(self._ports))
    ensures('result_is_selection', is_list(ret) and contains(seq(ret), N) == (
        dhas(src, N) and kept(N, isinstance(dget(src, N), PortNamespace), exclude, include)))
    ensures('selected_are_copied', implies(contains(seq(ret), N), dhas(self._ports, N) and fresh(dget(self._ports, N))
                                           and same_class(dget(self._ports, N), dget(src, N))))
    ensures('independent', implies(contains(seq(ret), N) and isinstance(dget(src, N), PortNamespace),
                                   fresh(dget(self._ports, N)._ports) and dget(self._ports, N)._ports is not dget(src, N)._ports))
    ensures('others_in_place', implies(not contains(seq(ret), N), dhas(self._ports, N) == old(dhas(self._ports, N))
                                       and dget(self._ports, N) is old(dget(self._ports, N))))
    loop_invariant(0, 'frame0', self._ports is old(self._ports) and dict_unchanged(self._ports) and is_dict(namespace_options)
                   and dlen(namespace_options) >= 0
                   and (namespace_options is old(namespace_options) or fresh(namespace_options))
                   and implies(fresh(namespace_options), dlen(namespace_options) == 0)
                   and implies(not fresh(namespace_options), dlen(namespace_options) <= old(dlen(namespace_options))))
    loop_modifies(0, fields(self), contents(namespace_options))
    loop_invariant(1, 'acc', is_list(absorbed_ports) and fresh(absorbed_ports) and self._ports is old(self._ports))
    loop_invariant(1, 'sel_sound', implies(contains(seq(absorbed_ports), N),
                                          N in _seen and kept(N, isinstance(dget(src, N), PortNamespace), exclude, include)))
    loop_invariant(1, 'sel_complete', implies(N in _seen and kept(N, isinstance(dget(src, N), PortNamespace), exclude, include),
                                              contains(seq(absorbed_ports), N)))
    loop_invariant(1, 'copied', implies(contains(seq(absorbed_ports), N), dhas(self._ports, N) and fresh(dget(self._ports, N))
                                        and same_class(dget(self._ports, N), dget(src, N))))
    loop_invariant(1, 'independent', implies(contains(seq(absorbed_ports), N) and isinstance(dget(src, N), PortNamespace),
                                             fresh(dget(self._ports, N)._ports) and dget(self._ports, N)._ports is not dget(src, N)._ports))
    loop_invariant(1, 'in_place', implies(not contains(seq(absorbed_ports), N), dhas(self._ports, N) == old(dhas(self._ports, N))
                                          and dget(self._ports, N) is old(dget(self._ports, N))))
    loop_modifies(1, contents(self._ports), contents(absorbed_ports))
    loop_item_fact(1, is_str(port_name) and isinstance(port, Port))
    replay('result_is_selection', 'absorb_selection')
    replay('independent', 'absorb_independent')
    replay('loop1.independent.preserved', 'absorb_independent')
    replay('loop1.sel_sound.preserved', 'absorb_selection')
    replay('loop1.sel_complete.preserved', 'absorb_selection')
