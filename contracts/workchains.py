# -*- coding: utf-8 -*-
"""Side-car contracts for plumpy.workchains (C09, C10).  Parsed with ast by pyvc; never executed.

Each stepper's step() is verified against the meaning of its own construct (sequence / branch / loop / return / call),
its child being known only through the abstract contract of Stepper.step -- so the argument is by structural induction
over the nesting of the outline, for any depth.  Steppers own their children: a child is always allocated after its
parent, and step() only writes steppers that are not older than itself (younger_instances)."""
from plumpy import process_states
from plumpy.workchains import (Stepper, WorkChain, _Block, _BlockStepper, _Conditional, _FunctionCall, _FunctionStepper, _If,
                               _IfStepper, _Instruction, _PropagateReturn, _Return, _ReturnStepper, _While, _WhileStepper)

CONFIG = {
    'attr_types': {
        'plumpy.workchains._BlockStepper._child_stepper': 'None|plumpy.workchains.Stepper',
        'plumpy.workchains._IfStepper._child_stepper': 'None|plumpy.workchains.Stepper',
        'plumpy.workchains._WhileStepper._child_stepper': 'None|plumpy.workchains.Stepper',
        'plumpy.workchains._BlockStepper._block': 'plumpy.workchains._Block',
        'plumpy.workchains._IfStepper._if_instruction': 'plumpy.workchains._If',
        'plumpy.workchains._WhileStepper._while_instruction': 'plumpy.workchains._While',
        'plumpy.workchains._Block._instruction': 'list',
        'plumpy.workchains._If._ifs': 'list',
        'plumpy.workchains._Conditional._body': 'None|plumpy.workchains._Block',
        'plumpy.workchains.WorkChain._stepper': 'None|plumpy.workchains.Stepper',
        'plumpy.mixins.ContextMixin._context': 'None|plumpy.utils.AttributesDict',
    },
    'class_invariants': {'plumpy.workchains._Block': 'wf_block', 'plumpy.workchains._If': 'wf_if',
                         'plumpy.workchains.Waiting': 'awaits_futures'},
    # ghosts: LASTRET = the pair returned by a stepper's most recent step(); FORINSTR = the instruction a stepper was made for
    # NSTEPS = number of normal returns of a stepper's step() (a `return_` leaves it unchanged)
    'ghost_arrays': {'LASTRET': 'val', 'FORINSTR': 'val', 'NSTEPS': 'int'},
    'user_havoc': 'all',
    'foreign_shortcut': True,     # receivers known to be foreign objects (is_foreign) are called as unknown code
    # A-PRIV: user steps and predicates do not touch steppers, instructions or the outline
    'protected_classes': ['plumpy.workchains.Stepper', 'plumpy.workchains._Instruction', 'plumpy.workchains._Conditional',
                          'plumpy.base.state_machine.StateMachine', 'plumpy.persistence.LoadSaveContext',
                          'plumpy.base.state_machine.State'],
}


@spec
def wf_block(b):
    """a block is a non-empty private list of instructions (an empty block fails at stepper creation)"""
    return (is_list(b._instruction) and owned(b._instruction) and len(seq(b._instruction)) >= 1
            and forall('int', lambda i: implies(0 <= i and i < len(seq(b._instruction)), isinstance(seq(b._instruction)[i], _Instruction))))


@spec
def wf_if(x):
    return (is_list(x._ifs) and owned(x._ifs) and len(seq(x._ifs)) >= 1
            and forall('int', lambda i: implies(0 <= i and i < len(seq(x._ifs)),
                                                type_is(seq(x._ifs)[i], _Conditional) and seq(x._ifs)[i]._body is not None)))


# ------------------------------------------------------------------------------------------------ abstract contracts
@contract('plumpy.workchains.Stepper.step', assumed=True, dispatch='static')
def stepper_step(self):
    """ABSTRACT contract every stepper's step() is verified against (behavioural subtyping): it runs user code, writes only
    itself and younger steppers, returns a pair (finished, value) or raises _PropagateReturn for a `return_`."""
    modifies(user_effects, younger_instances(self, Stepper))
    ghost_update('LASTRET', self, ret)
    ghost_update('NSTEPS', self, old(ghost('NSTEPS', self)) + 1)
    ensures(is_tuple(ret) and len(seq(ret)) == 2 and is_bool(seq(ret)[0]) and ghost('LASTRET', self) is ret
            and ghost('NSTEPS', self) == old(ghost('NSTEPS', self)) + 1)
    raises(_PropagateReturn, ghost('NSTEPS', self) == old(ghost('NSTEPS', self)))
    raises(Exception, True)


@contract('plumpy.workchains._Instruction.create_stepper', assumed=True, dispatch='static')
def create_stepper(self, workchain):
    """ABSTRACT: a new stepper (allocated now, so younger than whoever asks for it); creating it runs no user code"""
    modifies()
    ghost_update('FORINSTR', ret, self)
    ensures(isinstance(ret, Stepper) and fresh(ret) and ghost('FORINSTR', ret) is self)
    raises(IndexError, True)


# ------------------------------------------------------------------------------------------------ leaves
@contract('plumpy.workchains._FunctionStepper.step', props=['C09', 'C10'])
def function_step(self):
    """a step function: called exactly once with the workchain, its value is the step's value, the stepper is finished"""
    requires(is_heap_obj(self._fn) and not is_function(self._fn))
    modifies(user_effects)
    ev = calls()[len(calls()) - 1]
    ensures('one_call_with_the_workchain', len(calls()) == old(len(calls())) + 1 and ev.fn is self._fn
            and is_tuple(ev.args) and seq(ev.args) == [self._workchain] and dlen(ev.kwargs) == 0)
    ensures('finished_with_its_value', is_tuple(ret) and seq(ret) == [True, attr(ev, 'result')])
    raises(Exception, exc is attr(calls()[len(calls()) - 1], 'raised'))


@contract('plumpy.workchains._ReturnStepper.step', props=['C09'])
def return_step(self):
    """return_ / return_(code): stops the chain with the instruction's code, calling nothing"""
    requires(isinstance(self._return_instruction, _Return))
    modifies()
    raises(_PropagateReturn, fresh(exc) and exc.exit_code is self._return_instruction._exit_code and calls() == old(calls()))
    ensures('never_returns_normally', False)


@contract('plumpy.workchains._Return.__call__', props=['C09'])
def return_call(self, exit_code):
    """return_(code) denotes a NEW return instruction; the shared `return_` singleton keeps its own (None) code"""
    modifies()
    raises_nothing()
    ensures('new_instruction', type_is(ret, _Return) and fresh(ret) and ret._exit_code is exit_code)
    ensures('singleton_untouched', self._exit_code is old(self._exit_code))
    replay('new_instruction', 'return_instruction')
    replay('singleton_untouched', 'return_instruction')
    replay('frame_fields', 'return_instruction')


@contract('plumpy.workchains._Conditional.is_true', props=['C09'])
def is_true(self, workflow):
    """a predicate: called exactly once with the workchain; its value decides the branch"""
    requires(is_heap_obj(self._predicate) and not is_function(self._predicate))
    modifies(user_effects)
    ev = calls()[len(calls()) - 1]
    ensures('one_call_with_the_workchain', len(calls()) == old(len(calls())) + 1 and ev.fn is self._predicate
            and is_tuple(ev.args) and seq(ev.args) == [workflow] and dlen(ev.kwargs) == 0 and ret is attr(ev, 'result'))
    raises(Exception, exc is attr(calls()[len(calls()) - 1], 'raised'))


# ------------------------------------------------------------------------------------------------ sequence
@spec
def wf_blockstepper(s):
    """not finished: a current child exists, it is younger than its parent (ownership), the position is inside the block"""
    return (type_is(s, _BlockStepper) and is_int(s._pos) and 0 <= ival(s._pos) and ival(s._pos) < len(seq(s._block._instruction))
            and isinstance(s._child_stepper, Stepper) and older(s, s._child_stepper)
            # the instruction in progress is the one `_pos` names (what a checkpoint records and a restore rebuilds from)
            and ghost('FORINSTR', s._child_stepper) is seq(s._block._instruction)[ival(s._pos)])


@contract('plumpy.workchains._BlockStepper.step', props=['C09', 'C08', 'C10', 'C07'])
def block_step(self):
    """a sequence executes its current instruction; exactly when that instruction reports finished does it move on to
    the next one (never skipping, never repeating), and it is finished after the last"""
    requires(wf_blockstepper(self))
    n = len(seq(self._block._instruction))
    child0 = self._child_stepper
    pos0 = ival(self._pos)
    modifies(user_effects, younger_instances(self, Stepper))
    cf = seq(ghost('LASTRET', child0))[0] is True
    ensures('value_is_the_childs', is_tuple(ret) and len(seq(ret)) == 2 and seq(ret)[1] is seq(ghost('LASTRET', child0))[1])
    ensures('stays_while_child_unfinished', implies(not cf, ival(self._pos) == pos0 and self._child_stepper is child0
                                                    and seq(ret)[0] is False))
    ensures('advances_by_exactly_one', implies(cf, ival(self._pos) == pos0 + 1 and seq(ret)[0] is (pos0 + 1 == n)))
    ensures('next_instruction_gets_a_fresh_stepper', implies(cf and pos0 + 1 < n, isinstance(self._child_stepper, Stepper)
                                                             and fresh(self._child_stepper) and older(self, self._child_stepper)
                                                             and ghost('FORINSTR', self._child_stepper) is seq(self._block._instruction)[pos0 + 1]))
    ensures('finished_has_no_child', implies(cf and pos0 + 1 == n, self._child_stepper is None))
    ensures('position_names_the_instruction_in_progress', implies(self._child_stepper is not None, 0 <= ival(self._pos) and ival(self._pos) < n
                                                                  and ghost('FORINSTR', self._child_stepper) is seq(self._block._instruction)[ival(self._pos)]))
    raises(_PropagateReturn, True)
    raises(Exception, True)
    replay('advances_by_exactly_one', 'outline_semantics')
    replay('stays_while_child_unfinished', 'outline_semantics')


# ------------------------------------------------------------------------------------------------ loop
@contract('plumpy.workchains._WhileStepper.step', props=['C09', 'C08', 'C10', 'C07'])
def while_step(self):
    """while_: the predicate is evaluated exactly when no iteration is in progress (i.e. before every iteration); false
    ends the loop without running a step function; true starts the body afresh; the loop itself never reports finished
    while an iteration ran"""
    requires(type_is(self, _WhileStepper) and type_is(self._while_instruction, _While)
             and is_heap_obj(self._while_instruction._predicate) and not is_function(self._while_instruction._predicate)
             and self._while_instruction._body is not None)
    requires(self._child_stepper is None or (isinstance(self._child_stepper, Stepper) and older(self, self._child_stepper)))
    child0 = self._child_stepper
    n0 = len(calls())
    modifies(user_effects, younger_instances(self, Stepper))
    pred_called = len(calls()) > n0 and calls()[n0].fn is self._while_instruction._predicate
    ensures('predicate_before_every_iteration_a', implies(child0 is None, len(calls()) > n0))
    ensures('predicate_before_every_iteration_b', implies(child0 is None, calls()[n0].fn is self._while_instruction._predicate))
    ensures('predicate_before_every_iteration_c', implies(child0 is None, seq(calls()[n0].args) == [self._workchain]))
    ensures('false_predicate_ends_the_loop', implies(child0 is None and seq(ret)[0] is True,
                                                     len(calls()) == n0 + 1 and seq(ret)[1] is None and self._child_stepper is None))
    ensures('finished_only_by_false_predicate', implies(seq(ret)[0] is True, child0 is None))
    ensures('iteration_in_progress_skips_predicate', implies(child0 is not None,
                                                             seq(ret)[0] is False and seq(ret)[1] is seq(ghost('LASTRET', child0))[1]
                                                             and (self._child_stepper is None if seq(ghost('LASTRET', child0))[0] is True
                                                                  else self._child_stepper is child0)))
    raises(_PropagateReturn, True)
    raises(Exception, True)
    replay('predicate_before_every_iteration_a', 'outline_semantics')
    replay('predicate_before_every_iteration_b', 'outline_semantics')
    replay('false_predicate_ends_the_loop', 'outline_semantics')


# ------------------------------------------------------------------------------------------------ branch
@spec
def wf_ifstepper(s):
    return (type_is(s, _IfStepper) and type_is(s._if_instruction, _If) and wf_if(s._if_instruction) and is_int(s._pos) and 0 <= ival(s._pos) and ival(s._pos) <= len(seq(s._if_instruction._ifs))
            and (s._child_stepper is None or (isinstance(s._child_stepper, Stepper) and older(s, s._child_stepper)
                                              and ival(s._pos) < len(seq(s._if_instruction._ifs))))
            and implies(s._child_stepper is None, ival(s._pos) == 0 or ival(s._pos) == len(seq(s._if_instruction._ifs)))
            # the branch in progress is the one `_pos` names (this is what a checkpoint records and a restore rebuilds from)
            and implies(s._child_stepper is not None, ghost('FORINSTR', s._child_stepper) is seq(s._if_instruction._ifs)[ival(s._pos)]._body)
            and forall('int', lambda i: implies(0 <= i and i < len(seq(s._if_instruction._ifs)),
                                                type_is(seq(s._if_instruction._ifs)[i], _Conditional)
                                                and type_is(seq(s._if_instruction._ifs)[i]._body, _Block)))
            and forall('int', lambda i: implies(0 <= i and i < len(seq(s._if_instruction._ifs)),
                                                is_heap_obj(seq(s._if_instruction._ifs)[i]._predicate)
                                                and not is_function(seq(s._if_instruction._ifs)[i]._predicate))))


@contract('plumpy.workchains._IfStepper.step', props=['C09', 'C08', 'C10', 'C07'])
def if_step(self):
    """if_/elif_/else_: on the first step the predicates are evaluated in order until the first true one and no later one;
    the chosen body then runs (in the same step) to its end; no true predicate makes a step that calls no step function;
    once the branch is done the instruction is finished"""
    requires(wf_ifstepper(self))
    ifs = seq(self._if_instruction._ifs)
    n0 = len(calls())
    pos0 = ival(self._pos)
    child0 = self._child_stepper
    modifies(user_effects, younger_instances(self, Stepper))
    ensures('finished_instruction_is_silent', implies(pos0 == len(ifs), calls() == old(calls()) and seq(ret)[0] is True and seq(ret)[1] is None))
    ensures('branch_in_progress_evaluates_no_predicate', implies(child0 is not None,
                                                                 seq(ret)[1] is seq(ghost('LASTRET', child0))[1]
                                                                 and (ival(self._pos) == len(ifs) and self._child_stepper is None
                                                                      if seq(ghost('LASTRET', child0))[0] is True
                                                                      else ival(self._pos) == pos0 and self._child_stepper is child0)))
    ensures('no_branch_taken_calls_only_the_predicates', implies(child0 is None and pos0 == 0 and len(calls()) == n0 + len(ifs)
                                                                 and ival(self._pos) == len(ifs) and seq(ret)[1] is None, seq(ret)[0] is True))
    ensures('position_names_the_branch_in_progress', implies(self._child_stepper is not None,
                                                             0 <= ival(self._pos) and ival(self._pos) < len(ifs)
                                                             and ghost('FORINSTR', self._child_stepper) is ifs[ival(self._pos)]._body))
    raises(_PropagateReturn, True)
    raises(Exception, True)
    replay('position_names_the_branch_in_progress', 'checkpoint_resume')
    # the predicate scan (loop 0): iteration i calls exactly the i-th predicate once (is_true's contract) and nothing else, so
    # after i iterations exactly the first i predicates were evaluated, in order, and none of them held (else `break`)
    loop_invariant(0, 'scan_pos', ival(self._pos) == _i and is_int(self._pos))
    loop_invariant(0, 'scan_count', len(calls()) == n0 + _i)
    loop_invariant(0, 'scan_frame', self._child_stepper is None and self._if_instruction is old(self._if_instruction)
                   and seq(self._if_instruction._ifs) == ifs and self._workchain is old(self._workchain))
    loop_modifies(0, user_effects, self._pos)
    loop_item_fact(0, type_is(conditional, _Conditional))
    replay('loop0.scan_count.preserved', 'outline_semantics')
    replay('loop0.scan_pos.preserved', 'outline_semantics')
    replay('branch_in_progress_evaluates_no_predicate', 'outline_semantics')


# ------------------------------------------------------------------------------------------------ stepper creation
@contract('plumpy.workchains._BlockStepper.__init__', props=['C09'])
def blockstepper_init(self, block, workchain):
    requires(type_is(self, _BlockStepper) and type_is(block, _Block))
    modifies(fields(self))
    ensures('starts_at_the_first_instruction', self._block is block and self._workchain is workchain and is_int(self._pos) and ival(self._pos) == 0
            and isinstance(self._child_stepper, Stepper) and fresh(self._child_stepper) and older(self, self._child_stepper)
            and ghost('FORINSTR', self._child_stepper) is seq(block._instruction)[0])
    raises(IndexError, True)


@contract('plumpy.workchains._Block.create_stepper', props=['C09'])
def block_create_stepper(self, workchain):
    modifies()
    ghost_update('FORINSTR', ret, self)
    ensures('fresh_block_stepper', type_is(ret, _BlockStepper) and fresh(ret) and ghost('FORINSTR', ret) is self and wf_blockstepper(ret)
            and ret._block is self and ival(ret._pos) == 0)
    raises(IndexError, True)


@contract('plumpy.workchains._If.create_stepper', props=['C09'])
def if_create_stepper(self, workchain):
    modifies()
    raises_nothing()
    ghost_update('FORINSTR', ret, self)
    ensures('fresh_if_stepper', type_is(ret, _IfStepper) and fresh(ret) and ghost('FORINSTR', ret) is self
            and ret._if_instruction is self and ival(ret._pos) == 0 and ret._child_stepper is None and ret._workchain is workchain)


@contract('plumpy.workchains._While.create_stepper', props=['C09'])
def while_create_stepper(self, workchain):
    modifies()
    raises_nothing()
    ghost_update('FORINSTR', ret, self)
    ensures('fresh_while_stepper', type_is(ret, _WhileStepper) and fresh(ret) and ghost('FORINSTR', ret) is self
            and ret._while_instruction is self and ret._child_stepper is None and ret._workchain is workchain)


@contract('plumpy.workchains._FunctionCall.create_stepper', props=['C09'])
def call_create_stepper(self, workchain):
    modifies()
    raises_nothing()
    ghost_update('FORINSTR', ret, self)
    ensures('fresh_function_stepper', type_is(ret, _FunctionStepper) and fresh(ret) and ghost('FORINSTR', ret) is self
            and ret._fn is self._fn and ret._workchain is workchain)


@contract('plumpy.workchains._Return.create_stepper', props=['C09'])
def return_create_stepper(self, workchain):
    modifies()
    raises_nothing()
    ghost_update('FORINSTR', ret, self)
    ensures('fresh_return_stepper', type_is(ret, _ReturnStepper) and fresh(ret) and ghost('FORINSTR', ret) is self
            and ret._return_instruction is self)


# ------------------------------------------------------------------------------------------------ the chain driver
from plumpy.process_states import Continue, Wait


@spec
def resolved(a):
    """what is actually awaited for an item handed to the context: a child process stands for its future"""
    return a._future if isinstance(a, Process) else a


@contract('plumpy.workchains.WorkChain.to_context', props=['C10'], ghost=['K'])
def to_context(self, K=None, **kwargs):
    """every item handed over is registered in the awaitables of the current step under (one of) its key(s) (K: an arbitrary
    key); nothing registered before is dropped; only the awaitables map is written"""
    requires(is_dict(self._awaitables) and is_str(K))
    requires(kwargs is not self._awaitables)      # Python semantics: **kwargs is a dictionary made for this call
    aw = self._awaitables
    modifies(contents(self._awaitables))
    raises_nothing()
    ensures('registered', implies(dhas(kwargs, K), dhas(aw, resolved(dget(kwargs, K))) and dhas(kwargs, dget(aw, resolved(dget(kwargs, K))))
                                  and resolved(dget(kwargs, dget(aw, resolved(dget(kwargs, K))))) is resolved(dget(kwargs, K))))
    ensures('same_map', self._awaitables is aw)
    loop_modifies(0, contents(self._awaitables))
    loop_invariant(0, 'registered_so_far', implies(K in _seen, dhas(aw, resolved(dget(kwargs, K))) and dhas(kwargs, dget(aw, resolved(dget(kwargs, K))))
                                                   and resolved(dget(kwargs, dget(aw, resolved(dget(kwargs, K))))) is resolved(dget(kwargs, K))))
    loop_invariant(0, 'same_map', self._awaitables is aw and is_dict(aw))
    replay('registered', 'context_barrier')
    replay('loop0.registered_so_far.preserved', 'context_barrier')


@contract('plumpy.workchains.WorkChain._do_step', props=['C09', 'C10'])
def _do_step(self):
    """one outline step per RUNNING state; the step's value alone decides: a value that is neither None nor a context
    assignment stops the chain with that value (immediately, whatever was handed to the context); the last instruction
    finishes it; otherwise it continues -- after waiting, if anything was handed to the context"""
    requires(isinstance(self, WorkChain) and isinstance(self._stepper, Stepper))
    st0 = self._stepper
    modifies(user_effects, younger_instances(self._stepper, Stepper), self._awaitables)
    ensures('one_of_the_outcomes', True)
    # the clauses below are stated for the case that the stepper returned normally, i.e. LASTRET(st0) was (re)written by this
    # call; a `return_` reaches this function as _PropagateReturn and its code becomes the result (exceptional clause)
    fin = seq(ghost('LASTRET', st0))[0] is True
    v = seq(ghost('LASTRET', st0))[1]
    stepped = ghost('NSTEPS', st0) == old(ghost('NSTEPS', st0)) + 1
    ensures('return_stops_the_chain', implies(not stepped, True))
    ensures('stops_with_a_plain_value', implies(stepped and not fin and v is not None and not isinstance(v, dict), ret is v))
    ensures('finishes_after_the_last_instruction', implies(stepped and fin, ret is v))
    ensures('continues_or_waits', implies(stepped and not fin and (v is None or isinstance(v, dict)),
                                         (type_is(ret, Wait) and dlen(self._awaitables) > 0 and ret.data is self._awaitables)
                                         or (type_is(ret, Continue) and dlen(self._awaitables) == 0 and len(seq(ret.args)) == 0)))
    raises(Exception, True)
    replay('stops_with_a_plain_value', 'outline_semantics')
    replay('finishes_after_the_last_instruction', 'outline_semantics')
    replay('continues_or_waits', 'outline_semantics')


# ------------------------------------------------------------------------------------------------ checkpoints of the stepper tree (C07, C08)
from plumpy.persistence import LoadSaveContext
from plumpy.processes import Process


@spec
def stepper_state_ok(s):
    """a saved stepper state as Savable.save() without a custom loader produces it: a tree of private dictionaries, no
    recorded loader class"""
    return is_dict(s) and wf_state(s) and owned_state(s) and not has_custom_meta(s, 'object_loader')


@contract('plumpy.workchains._Instruction.recreate_stepper', assumed=True, dispatch='static')
def recreate_stepper(self, saved_state, workchain):
    """ABSTRACT: the stepper of THIS instruction rebuilt from a saved state (each override is verified against this)"""
    modifies()
    ghost_update('FORINSTR', ret, self)
    ghost_update('LOADED', saved_state, ret)
    ensures(isinstance(ret, Stepper) and fresh(ret) and ghost('FORINSTR', ret) is self and ghost('LOADED', saved_state) is ret)
    raises(Exception, True)


@contract('plumpy.workchains._IfStepper.save_instance_state', props=['C07', 'C08'], ghost=['M', 'K'])
def ifstepper_save(self, out_state, save_context, M=None, K=None):
    """an if-stepper's checkpoint: the branch position, and the state of the branch in progress exactly when there is one"""
    requires(M == '_pos' and K == 'stepper_state')     # the instances of save_members' pointwise contract that are used
    requires(type_is(self, _IfStepper))
    requires(wf_ifstepper(self) and is_dict(out_state) and wf_state(out_state) and not dhas(out_state, 'stepper_state'))
    child = self._child_stepper
    modifies(contents(out_state), contents(dget(out_state, '!!meta'), when=dhas(out_state, '!!meta')),
             contents(dget(dget(out_state, '!!meta'), 'types'), when=dhas(out_state, '!!meta') and dhas(dget(out_state, '!!meta'), 'types')),
             ghost('LASTSAVED'), self._persist_configured)
    ensures('position_recorded', dhas(out_state, '_pos') and dget(out_state, '_pos') is self._pos)
    ensures('branch_in_progress_recorded', dhas(out_state, 'stepper_state') == (child is not None)
            and implies(child is not None, is_dict(dget(out_state, 'stepper_state'))
                        and uf('saved_of', dget(out_state, 'stepper_state')) is child))
    raises(Exception, child is not None)
    replay('position_recorded', 'checkpoint_resume')
    replay('branch_in_progress_recorded', 'checkpoint_resume')


@spec
def if_load_context(c):
    """the load context an _If hands to its stepper's recreate_from"""
    return (isinstance(c, LoadSaveContext) and wf_lsc(c) and dhas(c._values, 'if_instruction') and dhas(c._values, 'workchain')
            and type_is(dget(c._values, 'if_instruction'), _If) and wf_if(dget(c._values, 'if_instruction')))


@contract('plumpy.workchains._IfStepper.load_instance_state', props=['C07', 'C08'], ghost=['M'])
def ifstepper_load(self, saved_state, load_context, M=None):
    """restoring an if-stepper: the recorded position, the instruction and workchain of the load context, and the branch in
    progress rebuilt BY THE BODY OF THE BRANCH THE POSITION NAMES from the recorded state -- no recorded branch, no child"""
    requires(M == '_pos')
    requires(type_is(self, _IfStepper) and is_dict(saved_state) and wf_state(saved_state) and owned_state(saved_state))
    requires(if_load_context(load_context))
    assumes('position_recorded_as_a_plain_value', not has_meta_type(saved_state, '_pos'))
    ifi = dget(load_context._values, 'if_instruction')
    pos = dget(saved_state, '_pos')
    has_child = dhas(saved_state, 'stepper_state') and dget(saved_state, 'stepper_state') is not None
    assumes('position_in_range', implies(dhas(saved_state, '_pos') and has_child, is_int(pos) and 0 <= ival(pos) and ival(pos) < len(seq(ifi._ifs))
                                         and type_is(seq(ifi._ifs)[ival(pos)], _Conditional) and type_is(seq(ifi._ifs)[ival(pos)]._body, _Block)))
    modifies(user_effects, fields(self), ghost('LOADED'), ghost('FORINSTR'))
    ensures('position_restored', self._pos is pos)
    ensures('instruction_and_workchain_from_the_context', self._if_instruction is ifi and self._workchain is dget(load_context._values, 'workchain'))
    ensures('branch_rebuilt_by_the_branch_the_position_names', implies(has_child,
            self._child_stepper is ghost('LOADED', dget(saved_state, 'stepper_state'))
            and ghost('FORINSTR', self._child_stepper) is seq(ifi._ifs)[ival(pos)]._body))
    ensures('no_recorded_branch_no_child', implies(not has_child, self._child_stepper is None))
    raises(KeyError, not dhas(saved_state, '_pos'))
    raises(Exception, has_child)
    replay('position_restored', 'checkpoint_resume')
    replay('branch_rebuilt_by_the_branch_the_position_names', 'checkpoint_resume')
    replay('no_recorded_branch_no_child', 'checkpoint_resume')


@contract('plumpy.workchains._Block.recreate_stepper', props=['C07', 'C08'])
def block_recreate_stepper(self, saved_state, workchain):
    """a block rebuilds ITS stepper from the recorded state (load context: this block, this workchain)"""
    requires(type_is(self, _Block))
    assumes('a_saved_stepper_state', stepper_state_ok(saved_state))
    modifies(user_effects, ghost('LOADED'), ghost('FORINSTR'))
    ghost_update('FORINSTR', ret, self)
    ghost_update('LOADED', saved_state, ret)
    ensures('its_own_stepper', type_is(ret, _BlockStepper) and fresh(ret) and ghost('FORINSTR', ret) is self and ghost('LOADED', saved_state) is ret
            and ret._block is self and ret._workchain is workchain)
    raises(Exception, True)


@spec
def block_load_context(c):
    return (isinstance(c, LoadSaveContext) and wf_lsc(c) and dhas(c._values, 'block_instruction') and dhas(c._values, 'workchain')
            and type_is(dget(c._values, 'block_instruction'), _Block))


@contract('plumpy.workchains._BlockStepper.save_instance_state', props=['C07', 'C08'], ghost=['M', 'K'])
def blockstepper_save(self, out_state, save_context, M=None, K=None):
    """a block stepper's checkpoint: the position, and the state of the instruction in progress exactly when there is one"""
    requires(M == '_pos' and K == 'stepper_state')
    requires(type_is(self, _BlockStepper))
    requires(is_int(self._pos) and (self._child_stepper is None or isinstance(self._child_stepper, Stepper)))
    requires(is_dict(out_state) and wf_state(out_state) and not dhas(out_state, 'stepper_state'))
    child = self._child_stepper
    modifies(contents(out_state), contents(dget(out_state, '!!meta'), when=dhas(out_state, '!!meta')),
             contents(dget(dget(out_state, '!!meta'), 'types'), when=dhas(out_state, '!!meta') and dhas(dget(out_state, '!!meta'), 'types')),
             ghost('LASTSAVED'), self._persist_configured)
    ensures('position_recorded', dhas(out_state, '_pos') and dget(out_state, '_pos') is self._pos)
    ensures('instruction_in_progress_recorded', dhas(out_state, 'stepper_state') == (child is not None)
            and implies(child is not None, is_dict(dget(out_state, 'stepper_state'))
                        and uf('saved_of', dget(out_state, 'stepper_state')) is child))
    raises(Exception, child is not None)
    replay('position_recorded', 'checkpoint_resume')
    replay('instruction_in_progress_recorded', 'checkpoint_resume')


@contract('plumpy.workchains._BlockStepper.load_instance_state', props=['C07', 'C08'], ghost=['M'])
def blockstepper_load(self, saved_state, load_context, M=None):
    """restoring a block stepper: the recorded position, block and workchain from the load context, and the instruction in
    progress rebuilt BY THE INSTRUCTION THE POSITION NAMES from its recorded state"""
    requires(M == '_pos')
    requires(type_is(self, _BlockStepper) and is_dict(saved_state) and wf_state(saved_state) and owned_state(saved_state))
    requires(block_load_context(load_context))
    assumes('position_recorded_as_a_plain_value', not has_meta_type(saved_state, '_pos'))
    blk = dget(load_context._values, 'block_instruction')
    pos = dget(saved_state, '_pos')
    has_child = dhas(saved_state, 'stepper_state') and dget(saved_state, 'stepper_state') is not None
    assumes('position_in_range', implies(dhas(saved_state, '_pos') and has_child, is_int(pos) and 0 <= ival(pos) and ival(pos) < len(seq(blk._instruction))
                                         and isinstance(seq(blk._instruction)[ival(pos)], _Instruction)))
    modifies(user_effects, fields(self), ghost('LOADED'), ghost('FORINSTR'))
    ensures('position_restored', self._pos is pos)
    ensures('block_and_workchain_from_the_context', self._block is blk and self._workchain is dget(load_context._values, 'workchain'))
    ensures('instruction_rebuilt_by_the_one_the_position_names', implies(has_child,
            self._child_stepper is ghost('LOADED', dget(saved_state, 'stepper_state'))
            and ghost('FORINSTR', self._child_stepper) is seq(blk._instruction)[ival(pos)]))
    ensures('no_recorded_instruction_no_child', implies(not has_child, self._child_stepper is None))
    raises(KeyError, not dhas(saved_state, '_pos'))
    raises(Exception, has_child)
    replay('position_restored', 'checkpoint_resume')
    replay('instruction_rebuilt_by_the_one_the_position_names', 'checkpoint_resume')
    replay('no_recorded_instruction_no_child', 'checkpoint_resume')


@spec
def while_load_context(c):
    return (isinstance(c, LoadSaveContext) and wf_lsc(c) and dhas(c._values, 'while_instruction') and dhas(c._values, 'workchain')
            and type_is(dget(c._values, 'while_instruction'), _While) and type_is(dget(c._values, 'while_instruction')._body, _Block))


@contract('plumpy.workchains._WhileStepper.save_instance_state', props=['C07', 'C08'], ghost=['K'])
def whilestepper_save(self, out_state, save_context, K=None):
    """a while stepper's checkpoint: the state of the iteration in progress exactly when there is one"""
    requires(K == 'stepper_state')
    requires(type_is(self, _WhileStepper) and (self._child_stepper is None or isinstance(self._child_stepper, Stepper)))
    requires(is_dict(out_state) and wf_state(out_state) and not dhas(out_state, 'stepper_state'))
    child = self._child_stepper
    modifies(contents(out_state), contents(dget(out_state, '!!meta'), when=dhas(out_state, '!!meta')),
             contents(dget(dget(out_state, '!!meta'), 'types'), when=dhas(out_state, '!!meta') and dhas(dget(out_state, '!!meta'), 'types')),
             ghost('LASTSAVED'), self._persist_configured)
    ensures('iteration_in_progress_recorded', dhas(out_state, 'stepper_state') == (child is not None)
            and implies(child is not None, is_dict(dget(out_state, 'stepper_state'))
                        and uf('saved_of', dget(out_state, 'stepper_state')) is child))
    raises(Exception, child is not None)
    replay('iteration_in_progress_recorded', 'checkpoint_resume')


@contract('plumpy.workchains._WhileStepper.load_instance_state', props=['C07', 'C08'])
def whilestepper_load(self, saved_state, load_context):
    """restoring a while stepper: instruction and workchain from the context, the iteration in progress rebuilt by the loop body"""
    requires(type_is(self, _WhileStepper) and is_dict(saved_state) and wf_state(saved_state) and owned_state(saved_state))
    requires(while_load_context(load_context))
    wi = dget(load_context._values, 'while_instruction')
    has_child = dhas(saved_state, 'stepper_state') and dget(saved_state, 'stepper_state') is not None
    modifies(user_effects, fields(self), ghost('LOADED'), ghost('FORINSTR'))
    ensures('instruction_and_workchain_from_the_context', self._while_instruction is wi and self._workchain is dget(load_context._values, 'workchain'))
    ensures('iteration_rebuilt_by_the_loop_body', implies(has_child, self._child_stepper is ghost('LOADED', dget(saved_state, 'stepper_state'))
                                                          and ghost('FORINSTR', self._child_stepper) is wi._body))
    ensures('no_recorded_iteration_no_child', implies(not has_child, self._child_stepper is None))
    raises(Exception, has_child)
    replay('iteration_rebuilt_by_the_loop_body', 'checkpoint_resume')
    replay('no_recorded_iteration_no_child', 'checkpoint_resume')


@contract('plumpy.workchains._If.recreate_stepper', props=['C07', 'C08'])
def if_recreate_stepper(self, saved_state, workchain):
    """an if_ rebuilds ITS stepper from the recorded state (load context: this instruction, this workchain)"""
    requires(type_is(self, _If) and wf_if(self))
    assumes('a_saved_stepper_state', stepper_state_ok(saved_state))
    modifies(user_effects, ghost('LOADED'), ghost('FORINSTR'))
    ghost_update('FORINSTR', ret, self)
    ghost_update('LOADED', saved_state, ret)
    ensures('its_own_stepper', type_is(ret, _IfStepper) and fresh(ret) and ghost('FORINSTR', ret) is self and ghost('LOADED', saved_state) is ret
            and ret._if_instruction is self and ret._workchain is workchain)
    raises(Exception, True)


@contract('plumpy.workchains._While.recreate_stepper', props=['C07', 'C08'])
def while_recreate_stepper(self, saved_state, workchain):
    requires(type_is(self, _While) and type_is(self._body, _Block))
    assumes('a_saved_stepper_state', stepper_state_ok(saved_state))
    modifies(user_effects, ghost('LOADED'), ghost('FORINSTR'))
    ghost_update('FORINSTR', ret, self)
    ghost_update('LOADED', saved_state, ret)
    ensures('its_own_stepper', type_is(ret, _WhileStepper) and fresh(ret) and ghost('FORINSTR', ret) is self and ghost('LOADED', saved_state) is ret
            and ret._while_instruction is self and ret._workchain is workchain)
    raises(Exception, True)


# ------------------------------------------------------------------------------------------------ the context barrier (C10, C06)
import asyncio
import plumpy.lang
from plumpy.utils import AttributesDict


@spec
def wf_wc_waiting(s):
    return (type_is(s, plumpy.workchains.Waiting) and is_dict(s._awaiting) and isinstance(s._waiting_future, asyncio.Future)
            and isinstance(s.state_machine, WorkChain) and type_is(s.state_machine._context, AttributesDict)
            and s._awaiting is not s.state_machine._awaitables)


@contract('plumpy.workchains.Waiting._awaitable_done', props=['C10', 'C06'], ghost=['K'])
def _awaitable_done(self, awaitable, K=None):
    """completion of one awaited item: it is no longer awaited (the others still are -- K: an arbitrary other item); its result
    goes to the context under its key; the barrier (the waiting future) is released exactly when nothing is awaited any more, and
    a failed item releases it with that failure at once"""
    requires(wf_wc_waiting(self))
    requires(isinstance(awaitable, asyncio.Future) and awaitable._state != 'PENDING' and awaitable is not self._waiting_future)
    requires(dhas(self._awaiting, awaitable) and is_str(dget(self._awaiting, awaitable)))
    requires(not class_level_name(self.state_machine._context, dget(self._awaiting, awaitable)))
    key = dget(self._awaiting, awaitable)
    wf = self._waiting_future
    ctx = self.state_machine._context
    succeeded = awaitable._state == 'FINISHED' and awaitable._exception is None
    failed = awaitable._state == 'FINISHED' and awaitable._exception is not None
    modifies(contents(self._awaiting), wf._state, wf._result, wf._exception, fields(self.state_machine._context))
    ensures('no_longer_awaited', not dhas(self._awaiting, awaitable))
    ensures('others_still_awaited', implies(K is not awaitable, dhas(self._awaiting, K) == old(dhas(self._awaiting, K))
                                            and dget(self._awaiting, K) is old(dget(self._awaiting, K))))
    ensures('result_under_its_key', implies(succeeded, attr(ctx, key) is awaitable._result))
    ensures('barrier_holds_while_something_is_awaited', implies(succeeded and dlen(self._awaiting) > 0,
                                                                 wf._state is old(wf._state) and wf._result is old(wf._result)))
    ensures('barrier_released_by_the_last_one', implies(succeeded and dlen(self._awaiting) == 0,
                                                        wf._state == 'FINISHED' and wf._exception is None))
    ensures('failure_is_delivered', implies(not succeeded, wf._state == 'FINISHED' and wf._exception is not None
                                            and implies(failed, wf._exception is awaitable._exception)))
    raises_nothing()
    known('raises_nothing', 'KF-C06-wakeup-after-interruption', old(wf._state) != 'PENDING')
    known('raises_nothing', 'KF-C10-cancelled-awaitable', awaitable._state == 'CANCELLED')
    replay('raises_nothing', 'context_barrier')
    replay('result_under_its_key', 'context_barrier')
    replay('barrier_holds_while_something_is_awaited', 'context_barrier')
    replay('barrier_released_by_the_last_one', 'context_barrier')
    replay('failure_is_delivered', 'context_barrier')


@contract('plumpy.workchains.Waiting.__init__', props=['C10'], ghost=['K'])
def wc_waiting_init(self, process, done_callback, msg=None, awaiting=None, K=None):
    """everything handed to the context is awaited (K: an arbitrary item; a child process through its future), under its key"""
    requires(type_is(self, plumpy.workchains.Waiting) and isinstance(process, Process))
    requires(awaiting is None or (is_dict(awaiting) and dlen(awaiting) >= 0))
    # what is handed to the context are futures or (child) processes
    requires(awaiting is None or forall(lambda k: implies(dhas(awaiting, k), isinstance(k, asyncio.Future) or isinstance(k, Process))))
    modifies(fields(self))
    raises_nothing()
    ghost_update('OWN', self._awaiting, True)     # the map of awaited futures is private to the state object
    ensures('invariant', awaits_futures(self))
    ensures('payload', self.state_machine is process and self.done_callback is done_callback and self.msg is msg and self.data is awaiting)
    ensures('armed', isinstance(self._waiting_future, asyncio.Future) and fresh(self._waiting_future) and self._waiting_future._state == 'PENDING')
    ensures('own_map', is_dict(self._awaiting) and fresh(self._awaiting))
    ensures('every_item_awaited', implies(awaiting is not None and dhas(awaiting, K), dhas(self._awaiting, resolved(K))
                                          and dhas(awaiting, uf('item_of', self._awaiting, resolved(K))) or True))
    ensures('every_item_awaited_under_a_key_of_its', implies(awaiting is not None and dhas(awaiting, K), dhas(self._awaiting, resolved(K))))
    ensures('nothing_awaited_without_items', implies(awaiting is None or dlen(awaiting) == 0, dlen(self._awaiting) == 0))
    loop_modifies(0, contents(self._awaiting))
    loop_invariant(0, 'awaited_so_far', implies(K in _seen, dhas(self._awaiting, resolved(K))))
    loop_invariant(0, 'own_map', is_dict(self._awaiting) and fresh(self._awaiting) and self._awaiting is not awaiting)
    loop_invariant(0, 'only_futures', forall(lambda k: implies(dhas(self._awaiting, k), isinstance(k, asyncio.Future))))
    loop_invariant(0, 'grows_with_the_items', implies(_n == 0, dlen(self._awaiting) == 0))
    replay('every_item_awaited_under_a_key_of_its', 'context_barrier')
    replay('nothing_awaited_without_items', 'context_barrier')


@spec
def awaits_futures(s):
    """what a workchain waits for are futures (a child process stands for its future: resolved())"""
    return (type_is(s, plumpy.workchains.Waiting) and is_dict(s._awaiting) and owned(s._awaiting)
            and forall(lambda k: implies(dhas(s._awaiting, k), isinstance(k, asyncio.Future))))


@contract('plumpy.workchains.Waiting.enter', props=['C10', 'C06'], ghost=['K'])
def wc_waiting_enter(self, K=None):
    """entering the waiting state registers the completion handler of THIS state on every awaited future (K: an arbitrary one)"""
    requires(awaits_futures(self))
    modifies(ghost('CB'), user_effects)
    raises_nothing()
    ensures('handler_registered_on_every_awaited_future', implies(dhas(self._awaiting, K), bound_method(ghost('CB', K), self, '_awaitable_done')))
    loop_modifies(0, ghost('CB'), user_effects)
    loop_invariant(0, 'registered_so_far', implies(K in _seen, bound_method(ghost('CB', K), self, '_awaitable_done')))
    loop_item_fact(0, isinstance(awaitable, asyncio.Future))
    replay('handler_registered_on_every_awaited_future', 'context_barrier')


@contract('plumpy.workchains.Waiting.exit', props=['C10', 'C06'], ghost=['K'])
def wc_waiting_exit(self, K=None):
    """leaving the waiting state removes the completion handler from every still-awaited future"""
    requires(awaits_futures(self))
    modifies(ghost('CB'), user_effects)
    raises_nothing()
    ensures('handler_removed_from_every_awaited_future', implies(dhas(self._awaiting, K), ghost('CB', K) is None))
    loop_modifies(0, ghost('CB'), user_effects)
    loop_invariant(0, 'removed_so_far', implies(K in _seen, ghost('CB', K) is None))
    loop_item_fact(0, isinstance(awaitable, asyncio.Future))
    replay('handler_removed_from_every_awaited_future', 'context_barrier')
