# -*- coding: utf-8 -*-
"""Side-car contracts for plumpy.process_comms (C17: launcher tasks; C16: message construction).
Parsed with ast by pyvc; never executed.

The launcher only ORCHESTRATES code it does not know (the object loader, the process class, the process, the persister):
those calls are logged in the ghost trace `calls()` -- user calls as they are, calls of the abstract Persister methods through
`event=True` -- and the contracts say exactly which calls happen, in which order, with which arguments ("do what they say")."""
import asyncio
import kiwipy
from plumpy import loaders, persistence
from plumpy.loaders import ObjectLoader
from plumpy.persistence import Bundle, LoadSaveContext, Persister
from plumpy.process_comms import ProcessLauncher

CONFIG = {
    'attr_types': {
        'plumpy.process_comms.ProcessLauncher._loader': 'plumpy.loaders.ObjectLoader',
        'plumpy.process_comms.ProcessLauncher._persister': 'None|plumpy.persistence.Persister',
        'plumpy.process_comms.ProcessLauncher._load_context': 'plumpy.persistence.LoadSaveContext',
    },
    'user_havoc': 'all',
    'user_results_foreign': True,
    # A-PRIV: processes, loaders and persisters do not reconfigure the launcher that drives them
    'protected_classes': ['plumpy.process_comms.ProcessLauncher', 'plumpy.persistence.LoadSaveContext'],
    # SCHEDULED: the awaitable was handed to the event loop with asyncio.ensure_future (runs later, not awaited here)
    'ghost_arrays': {'SCHEDULED': 'bool'},
}


# ------------------------------------------------------------------------------------------------ what the launcher talks to
@contract('plumpy.persistence.Persister.save_checkpoint', assumed=True, dispatch='static', event=True)
def save_checkpoint(self, process, tag=None):
    """ABSTRACT persister method: unknown code, logged"""
    modifies(user_effects)
    ensures(True)
    raises(Exception, True)


@contract('plumpy.persistence.Persister.load_checkpoint', assumed=True, dispatch='static', event=True,
          result_class='plumpy.persistence.Bundle')
def load_checkpoint(self, pid, tag=None):
    """ABSTRACT persister method: unknown code, logged; hands out a bundle"""
    modifies(user_effects)
    ensures(True)
    raises(Exception, True)


@contract('plumpy.persistence.Bundle.unbundle', assumed=True, event=True)
def unbundle(self, load_context=None):
    """ASSUMED here (its round trip is C07's subject): rebuilding the saved object runs its class's code -- logged"""
    modifies(user_effects)
    ensures(True)
    raises(Exception, True)


@lib('asyncio.ensure_future')
def ensure_future(coro_or_future):
    """ASSUMED: hands the awaitable to the event loop; nothing of it runs before the caller yields"""
    modifies()
    raises_nothing()
    ghost_update('SCHEDULED', coro_or_future, True)
    ensures(is_heap_obj(ret) and fresh(ret) and ghost('SCHEDULED', coro_or_future))


@spec
def wf_launcher(l):
    return (isinstance(l._loader, ObjectLoader) and (l._persister is None or isinstance(l._persister, Persister))
            and isinstance(l._load_context, LoadSaveContext))


@spec
def a_process_class(loader, identifier):
    """what the loader resolves the identifier to is a user-defined class: an object of the heap, calling it runs user code"""
    return is_heap_obj(uf('loaded', loader, identifier)) and not is_function(uf('loaded', loader, identifier))


# ------------------------------------------------------------------------------------------------ construction
@contract('plumpy.process_comms.ProcessLauncher.__init__', props=['C17'])
def launcher_init(self, loop=None, persister=None, load_context=None, loader=None):
    requires(persister is None or isinstance(persister, Persister))
    requires(load_context is None or (isinstance(load_context, LoadSaveContext) and wf_lsc(load_context)))
    requires(loader is None or isinstance(loader, ObjectLoader))
    modifies(fields(self))
    raises_nothing()
    ensures('persister_kept', self._persister is persister and self._loop is loop)
    ensures('configured_loader_is_used', implies(loader is not None, self._loader is loader and self._load_context.loader is loader))
    ensures('default_loader_otherwise', implies(loader is None, self._loader is ghost_const('default_loader')))
    ensures('given_context_kept', implies(loader is None and load_context is not None, self._load_context is load_context))
    ensures('invariant', wf_launcher(self))
    replay('configured_loader_is_used', 'launcher_tasks')
    replay('given_context_kept', 'launcher_tasks')
    replay('persister_kept', 'launcher_tasks')


# ------------------------------------------------------------------------------------------------ the three tasks
@contract('plumpy.process_comms.ProcessLauncher._create', props=['C17'])
def _create(self, _communicator, process_class, persist, init_args=None, init_kwargs=None):
    """create: construct (with exactly the given arguments, class resolved by the configured loader), persist iff asked,
    return the pid -- and run nothing"""
    requires(wf_launcher(self))
    requires(is_bool(persist))
    requires(init_args is None or is_tuple(init_args) or is_list(init_args))
    requires(init_kwargs is None or (is_dict(init_kwargs) and forall(lambda k: implies(dhas(init_kwargs, k), is_str(k)))))
    requires(a_process_class(self._loader, process_class))
    n0 = len(calls())
    rejected = persist is True and self._persister is None
    modifies(user_effects)
    e_new = calls()[n0]
    proc = attr(e_new, 'result')
    ensures('not_rejected', not rejected)
    ensures('constructed_once', len(calls()) == n0 + (2 if persist is True else 1)
            and e_new.fn is uf('loaded', self._loader, process_class))
    ensures('with_the_given_arguments', implies(init_args is not None, seq(e_new.args) == old(seq(init_args)))
            and implies(init_args is None, len(seq(e_new.args)) == 0)
            and implies(init_kwargs is not None, same_dict_old(e_new.kwargs, init_kwargs))
            and implies(init_kwargs is None, dlen(e_new.kwargs) == 0))
    ensures('persisted_iff_asked', implies(persist is True, calls()[n0 + 1].fn is Persister.save_checkpoint
                                           and seq(calls()[n0 + 1].args) == [self._persister, proc]
                                           and dlen(calls()[n0 + 1].kwargs) == 0))
    ensures('returns_the_pid', ret is attr(proc, 'pid'))
    raises(kiwipy.TaskRejected, implies(rejected, len(calls()) == n0))
    raises(ValueError, not rejected)
    raises(Exception, not rejected and len(calls()) > n0)
    replay('constructed_once', 'launcher_tasks')
    replay('persisted_iff_asked', 'launcher_tasks')
    replay('with_the_given_arguments', 'launcher_tasks')
    replay('returns_the_pid', 'launcher_tasks')
    replay('raises_only_declared', 'launcher_tasks')


@spec
def constructed_as_asked(e_new, cls, init_args0, init_kwargs):
    """the construction event: the resolved class called with exactly the given positional and keyword arguments"""
    return (e_new.fn is cls
            and implies(init_kwargs is not None, same_dict_old(e_new.kwargs, init_kwargs))
            and implies(init_kwargs is None, dlen(e_new.kwargs) == 0))


@contract('plumpy.process_comms.ProcessLauncher._launch', props=['C17'])
def _launch(self, _communicator, process_class, persist, nowait, init_args=None, init_kwargs=None):
    """launch: a FRESH instance (class resolved by the configured loader, exactly the given arguments), persisted first iff
    asked, then run: with nowait handed to the loop and the pid returned at once, otherwise run to completion here and the
    reply is the process future's outcome (its result, or its error)"""
    requires(wf_launcher(self))
    requires(is_bool(persist) and is_bool(nowait))
    requires(init_args is None or is_tuple(init_args) or is_list(init_args))
    requires(init_kwargs is None or (is_dict(init_kwargs) and forall(lambda k: implies(dhas(init_kwargs, k), is_str(k)))))
    requires(a_process_class(self._loader, process_class))
    n0 = len(calls())
    rejected = persist is True and self._persister is None
    k = n0 + (2 if persist is True else 1)
    modifies(user_effects, ghost('SCHEDULED'))
    e_new = calls()[n0]
    proc = attr(e_new, 'result')
    e_step = calls()[k]
    ensures('not_rejected', not rejected)
    ensures('constructed_first', len(calls()) > k and e_new.fn is uf('loaded', self._loader, process_class)
            and implies(init_args is not None, seq(e_new.args) == old(seq(init_args)))
            and implies(init_args is None, len(seq(e_new.args)) == 0)
            and implies(init_kwargs is not None, same_dict_old(e_new.kwargs, init_kwargs))
            and implies(init_kwargs is None, dlen(e_new.kwargs) == 0))
    ensures('persisted_before_running', implies(persist is True, calls()[n0 + 1].fn is Persister.save_checkpoint
                                                and seq(calls()[n0 + 1].args) == [self._persister, proc]
                                                and dlen(calls()[n0 + 1].kwargs) == 0))
    ensures('then_run', e_step.recv is proc and e_step.meth == 'step_until_terminated'
            and len(seq(e_step.args)) == 0 and dlen(e_step.kwargs) == 0)
    ensures('nowait_returns_the_pid_at_once', implies(nowait is True, len(calls()) == k + 1 and ret is attr(proc, 'pid')
                                                      and e_step.was_awaited is False and ghost('SCHEDULED', attr(e_step, 'result'))))
    ensures('wait_replies_with_the_outcome', implies(nowait is False, len(calls()) == k + 3 and e_step.was_awaited is True
                                                     and calls()[k + 1].recv is proc and calls()[k + 1].meth == 'future'
                                                     and len(seq(calls()[k + 1].args)) == 0
                                                     and calls()[k + 2].recv is attr(calls()[k + 1], 'result')
                                                     and calls()[k + 2].meth == 'result' and len(seq(calls()[k + 2].args)) == 0
                                                     and ret is attr(calls()[k + 2], 'result')))
    raises(kiwipy.TaskRejected, implies(rejected, len(calls()) == n0))
    raises(ValueError, not rejected)
    raises(Exception, not rejected and len(calls()) > n0)
    replay('constructed_first', 'launcher_tasks')
    replay('persisted_before_running', 'launcher_tasks')
    replay('then_run', 'launcher_tasks')
    replay('nowait_returns_the_pid_at_once', 'launcher_tasks')
    replay('wait_replies_with_the_outcome', 'launcher_tasks')
    replay('raises_only_declared', 'launcher_tasks')


@contract('plumpy.process_comms.ProcessLauncher._continue', props=['C17'])
def _continue(self, _communicator, pid, nowait, tag=None):
    """continue: exactly the persisted checkpoint (pid, tag) is loaded, unbundled with the configured load context (which
    carries the configured loader), and that process is run; no persister => rejected, nothing loaded"""
    requires(wf_launcher(self))
    requires(is_bool(nowait))
    n0 = len(calls())
    rejected = self._persister is None
    modifies(user_effects, ghost('SCHEDULED'))
    e_load = calls()[n0]
    e_unb = calls()[n0 + 1]
    proc = attr(e_unb, 'result')
    e_step = calls()[n0 + 2]
    ensures('not_rejected', not rejected)
    ensures('loads_exactly_the_checkpoint', len(calls()) > n0 + 2 and e_load.fn is Persister.load_checkpoint
            and seq(e_load.args) == [self._persister, pid, tag] and dlen(e_load.kwargs) == 0)
    ensures('unbundled_with_the_configured_context', e_unb.fn is Bundle.unbundle
            and seq(e_unb.args) == [attr(e_load, 'result'), self._load_context] and dlen(e_unb.kwargs) == 0)
    ensures('then_run', e_step.recv is proc and e_step.meth == 'step_until_terminated'
            and len(seq(e_step.args)) == 0 and dlen(e_step.kwargs) == 0)
    ensures('nowait_returns_the_pid_at_once', implies(nowait is True, len(calls()) == n0 + 3 and ret is attr(proc, 'pid')
                                                      and e_step.was_awaited is False and ghost('SCHEDULED', attr(e_step, 'result'))))
    ensures('wait_replies_with_the_outcome', implies(nowait is False, len(calls()) == n0 + 5 and e_step.was_awaited is True
                                                     and calls()[n0 + 3].recv is proc and calls()[n0 + 3].meth == 'future'
                                                     and calls()[n0 + 4].recv is attr(calls()[n0 + 3], 'result')
                                                     and calls()[n0 + 4].meth == 'result'
                                                     and ret is attr(calls()[n0 + 4], 'result')))
    raises(kiwipy.TaskRejected, implies(rejected, len(calls()) == n0))
    raises(ValueError, not rejected)
    raises(Exception, not rejected and len(calls()) > n0)
    replay('loads_exactly_the_checkpoint', 'launcher_tasks')
    replay('unbundled_with_the_configured_context', 'launcher_tasks')
    replay('then_run', 'launcher_tasks')
    replay('nowait_returns_the_pid_at_once', 'launcher_tasks')
    replay('wait_replies_with_the_outcome', 'launcher_tasks')
    replay('raises_only_declared', 'launcher_tasks')


@spec
def task_args(task):
    return dget(task, 'args')


@spec
def wf_create_args(self, a):
    """the keyword arguments of a create/launch body as the body builders produce them"""
    return (is_dict(a) and forall(lambda k: implies(dhas(a, k), is_str(k)))
            and dhas(a, 'process_class') and dhas(a, 'persist') and is_bool(dget(a, 'persist'))
            and a_process_class(self._loader, dget(a, 'process_class'))
            and implies(dhas(a, 'init_args'), dget(a, 'init_args') is None or is_tuple(dget(a, 'init_args')) or is_list(dget(a, 'init_args')))
            and implies(dhas(a, 'init_kwargs'), dget(a, 'init_kwargs') is None
                        or (is_dict(dget(a, 'init_kwargs'))
                            and forall(lambda k: implies(dhas(dget(a, 'init_kwargs'), k), is_str(k))))))


@contract('plumpy.process_comms.ProcessLauncher.__call__', props=['C17'])
def launcher_call(self, communicator, task):
    """a task is handled by exactly the handler its type names, with the body's arguments; any other type is rejected and
    nothing is executed"""
    requires(wf_launcher(self) and is_dict(task) and dhas(task, 'task') and is_str(dget(task, 'task')))
    requires(implies(dget(task, 'task') == 'create' and dhas(task, 'args'),
                     wf_create_args(self, task_args(task)) and dlen(task_args(task)) == 2 + (1 if dhas(task_args(task), 'init_args') else 0)
                     + (1 if dhas(task_args(task), 'init_kwargs') else 0)))
    requires(implies(dget(task, 'task') == 'launch' and dhas(task, 'args'),
                     wf_create_args(self, task_args(task)) and dhas(task_args(task), 'nowait') and is_bool(dget(task_args(task), 'nowait'))
                     and dlen(task_args(task)) == 3 + (1 if dhas(task_args(task), 'init_args') else 0)
                     + (1 if dhas(task_args(task), 'init_kwargs') else 0)))
    requires(implies(dget(task, 'task') == 'continue' and dhas(task, 'args'),
                     is_dict(task_args(task)) and forall(lambda k: implies(dhas(task_args(task), k), is_str(k)))
                     and dhas(task_args(task), 'pid') and dhas(task_args(task), 'nowait') and is_bool(dget(task_args(task), 'nowait'))
                     and dlen(task_args(task)) == 2 + (1 if dhas(task_args(task), 'tag') else 0)))
    n0 = len(calls())
    tt = dget(task, 'task')
    known = tt == 'launch' or tt == 'continue' or tt == 'create'
    modifies(user_effects, ghost('SCHEDULED'))
    a = old(dget(task, 'args'))
    has_args = old(dhas(task, 'args'))
    ensures('only_known_tasks_are_executed', known)
    ensures('create_only_creates', implies(tt == 'create' and has_args,
                                           len(calls()) == n0 + (2 if old(dget(dget(task, 'args'), 'persist')) is True else 1)
                                           and calls()[n0].fn is uf('loaded', self._loader, old(dget(dget(task, 'args'), 'process_class')))
                                           and ret is attr(attr(calls()[n0], 'result'), 'pid')))
    ensures('launch_launches', implies(tt == 'launch' and has_args,
                                       len(calls()) >= n0 + (3 if old(dget(dget(task, 'args'), 'persist')) is True else 2)
                                       and calls()[n0].fn is uf('loaded', self._loader, old(dget(dget(task, 'args'), 'process_class')))
                                       and calls()[n0 + (2 if old(dget(dget(task, 'args'), 'persist')) is True else 1)].meth == 'step_until_terminated'
                                       and calls()[n0 + (2 if old(dget(dget(task, 'args'), 'persist')) is True else 1)].recv is attr(calls()[n0], 'result')))
    ensures('continue_continues', implies(tt == 'continue' and has_args,
                                          len(calls()) >= n0 + 3 and calls()[n0].fn is Persister.load_checkpoint
                                          and seq(calls()[n0].args)[1] is old(dget(dget(task, 'args'), 'pid'))
                                          and seq(calls()[n0].args)[2] is (old(dget(dget(task, 'args'), 'tag')) if old(dhas(dget(task, 'args'), 'tag')) else None)
                                          and calls()[n0 + 2].meth == 'step_until_terminated'))
    raises(kiwipy.TaskRejected, implies(not known, len(calls()) == n0))
    raises(ValueError, known)
    raises(TypeError, known and (len(calls()) > n0 or not has_args))
    raises(Exception, known and len(calls()) > n0)
    replay('only_known_tasks_are_executed', 'launcher_tasks')
    replay('create_only_creates', 'launcher_tasks')
    replay('launch_launches', 'launcher_tasks')
    replay('continue_continues', 'launcher_tasks')
    replay('raises_only_declared', 'launcher_tasks')


# ------------------------------------------------------------------------------------------------ body builders
@contract('plumpy.process_comms.create_launch_body', props=['C17'])
def create_launch_body(process_class, init_args=None, init_kwargs=None, persist=False, loader=None, nowait=True):
    """the launch body names the launch task and carries exactly the handler's keyword arguments; the class travels as the
    identifier the loader gives it (which that loader resolves back to the class)"""
    requires(loader is None or isinstance(loader, ObjectLoader))
    modifies()
    ldr = loader if loader is not None else ghost_const('default_loader')
    a = dget(ret, 'args')
    ensures('names_the_task', is_dict(ret) and fresh(ret) and dlen(ret) == 2 and dget(ret, 'task') == 'launch' and dhas(ret, 'args'))
    ensures('carries_the_arguments', is_dict(a) and fresh(a) and dlen(a) == 5
            and dget(a, 'persist') is persist and dget(a, 'nowait') is nowait
            and dget(a, 'init_args') is init_args and dget(a, 'init_kwargs') is init_kwargs
            and dhas(a, 'process_class') and uf('loaded', ldr, dget(a, 'process_class')) is process_class)
    raises(ValueError, True)
    replay('names_the_task', 'launcher_bodies')
    replay('carries_the_arguments', 'launcher_bodies')


@contract('plumpy.process_comms.create_create_body', props=['C17'])
def create_create_body(process_class, init_args=None, init_kwargs=None, persist=False, loader=None):
    requires(loader is None or isinstance(loader, ObjectLoader))
    modifies()
    ldr = loader if loader is not None else ghost_const('default_loader')
    a = dget(ret, 'args')
    ensures('names_the_task', is_dict(ret) and fresh(ret) and dlen(ret) == 2 and dget(ret, 'task') == 'create' and dhas(ret, 'args'))
    ensures('carries_the_arguments', is_dict(a) and fresh(a) and dlen(a) == 4
            and dget(a, 'persist') is persist
            and dget(a, 'init_args') is init_args and dget(a, 'init_kwargs') is init_kwargs
            and dhas(a, 'process_class') and uf('loaded', ldr, dget(a, 'process_class')) is process_class)
    raises(ValueError, True)
    replay('names_the_task', 'launcher_bodies')
    replay('carries_the_arguments', 'launcher_bodies')


@contract('plumpy.process_comms.create_continue_body', props=['C17'])
def create_continue_body(pid, tag=None, nowait=False):
    modifies()
    raises_nothing()
    a = dget(ret, 'args')
    ensures('names_the_task', is_dict(ret) and fresh(ret) and dlen(ret) == 2 and dget(ret, 'task') == 'continue' and dhas(ret, 'args'))
    ensures('carries_the_arguments', is_dict(a) and fresh(a) and dlen(a) == 3
            and dget(a, 'pid') is pid and dget(a, 'nowait') is nowait and dget(a, 'tag') is tag)
    replay('names_the_task', 'launcher_bodies')
    replay('carries_the_arguments', 'launcher_bodies')
