# -*- coding: utf-8 -*-
"""Side-car contracts for plumpy.futures / communications adapters (C20).  Parsed with ast by pyvc; never executed."""
import asyncio
import kiwipy
import plumpy.futures
from plumpy.futures import CancellableAction

CONFIG = {
    'user_havoc': 'all',
    # an action does not complete or cancel the CancellableAction / task future it is running for (rely of C20)
    'protected_classes': ['plumpy.futures.CancellableAction', 'asyncio.Future', 'kiwipy.Future'],
    # the action may be aborted by a BaseException-only class (KeyboardInterrupt, CancelledError): at most once must still hold
    'user_raises_base_exception': True,
    'class_invariants': {'plumpy.futures.CancellableAction': 'wf_action'},
}


@spec
def wf_action(a):
    """class invariant of CancellableAction: while it has not run it holds the callable it was made for (an object: a partial, a
    closure, a bound method); run() drops it when it completes the future"""
    return implies(a._state == 'PENDING', is_heap_obj(a._action))


@contract('plumpy.futures.CancellableAction.__init__', props=['C20', 'C04'])
def ca_init(self, action, cookie=None):
    requires(is_heap_obj(action))
    modifies(fields(self))
    raises_nothing()
    ensures('payload', self._action is action and self._cookie is cookie and self._state == 'PENDING')
    ensures('invariant', wf_action(self))


@contract('plumpy.futures.CancellableAction.run', props=['C20', 'C04', 'C05'])
def ca_run(self, *args, **kwargs):
    requires(wf_action(self))
    modifies(user_effects, fields(self))
    ev = calls()[len(calls()) - 1]
    ensures('ran_once', old(self._state) == 'PENDING' and len(calls()) == old(len(calls())) + 1
            and take(calls(), old(len(calls()))) == old(calls()))
    ensures('exact_args', ev.fn is old(self._action) and seq(ev.args) == seq(args) and same_dict_old(ev.kwargs, kwargs))
    ensures('outcome_reported', self._state == 'FINISHED'
            and (self._exception is attr(ev, 'raised') if attr(ev, 'raised') is not None
                 else (self._exception is None and self._result is attr(ev, 'result'))))
    ensures('spent', self._action is None)
    raises(plumpy.futures.InvalidStateError, old(self._state) != 'PENDING' and len(calls()) == old(len(calls()))
           and unchanged(self._state, self._result, self._exception, self._action))
    # aborted by a BaseException-only class: it propagates, and the action is spent all the same (never runs a second time)
    raises(BaseException, not isinstance(exc, Exception) and old(self._state) == 'PENDING' and len(calls()) == old(len(calls())) + 1
           and exc is attr(calls()[len(calls()) - 1], 'raised') and self._action is None)
    replay('ran_once', 'cancellable_action')
    replay('outcome_reported', 'cancellable_action')
    replay('raises_only_declared', 'cancellable_action')


@contract('plumpy.futures.unwrap_kiwi_future.<unwrap>', props=['C20'])
def unwrap(fut):
    """done-callback of one level of the chain; `unwrapping` is the outer future, `unwrap` this closure itself"""
    requires(isinstance(fut, kiwipy.Future) and fut._state != 'PENDING')
    requires(isinstance(unwrapping, kiwipy.Future) and unwrapping._state == 'PENDING' and unwrapping is not fut)
    requires(implies(isinstance(fut._result, kiwipy.Future), is_list(fut._result._callbacks) and fut._result is not unwrapping))
    inner = fut._result
    modifies(unwrapping._state, unwrapping._result, unwrapping._exception, contents(inner._callbacks))
    raises_nothing()
    ensures('cancellation', implies(old(fut._state) == 'CANCELLED', unwrapping._state == 'CANCELLED'))
    ensures('exception', implies(old(fut._state) == 'FINISHED' and fut._exception is not None,
                                 unwrapping._state == 'FINISHED' and unwrapping._exception is fut._exception))
    ensures('chain', implies(old(fut._state) == 'FINISHED' and fut._exception is None and isinstance(inner, kiwipy.Future),
                             unwrapping._state == 'PENDING'
                             and implies(inner._state == 'PENDING', seq(inner._callbacks) == old(seq(inner._callbacks)) + [unwrap])))
    ensures('value', implies(old(fut._state) == 'FINISHED' and fut._exception is None and not isinstance(inner, kiwipy.Future),
                             unwrapping._state == 'FINISHED' and unwrapping._exception is None and unwrapping._result is inner))
    replay('cancellation', 'unwrap_kiwi')
    replay('exception', 'unwrap_kiwi')
    replay('chain', 'unwrap_kiwi')
    replay('value', 'unwrap_kiwi')
    replay('raises_nothing', 'unwrap_kiwi')
