# -*- coding: utf-8 -*-
"""Side-car contracts for plumpy.futures / communications adapters (C20).  Parsed with ast by pyvc; never executed."""
import asyncio
import kiwipy
import plumpy.futures
from plumpy.futures import CancellableAction

CONFIG = {
    'user_havoc': 'all',
    # an action does not complete or cancel the CancellableAction / task future it is running for (rely of C20)
    'protected_classes': ['plumpy.futures.CancellableAction', 'asyncio.Future', 'kiwipy.Future'],
    # the action may be aborted by a BaseException-only class (KeyboardInterrupt, CancelledError): at most once must still hold
    'user_raises_base_exception': True,
    'class_invariants': {'plumpy.futures.CancellableAction': 'wf_action'},
}


@spec
def wf_action(a):
    """class invariant of CancellableAction: while it has not run it holds the callable it was made for (an object: a partial, a
    closure, a bound method); run() drops it when it completes the future"""
    return implies(a._state == 'PENDING', is_heap_obj(a._action))


@contract('plumpy.futures.CancellableAction.__init__', props=['C20', 'C04'])
def ca_init(self, action, cookie=None):
    requires(is_heap_obj(action))
    modifies(fields(self))
    raises_nothing()
    ensures('payload', self._action is action and self._cookie is cookie and self._state == 'PENDING')
    ensures('invariant', wf_action(self))


@contract('plumpy.futures.CancellableAction.run', props=['C20', 'C04', 'C05'])
def ca_run(self, *args, **kwargs):
    requires(wf_action(self))
    modifies(user_effects, fields(self))
    ev = calls()[len(calls()) - 1]
    ensures('ran_once', old(self._state) == 'PENDING' and len(calls()) == old(len(calls())) + 1
            and take(calls(), old(len(calls()))) == old(calls()))
    ensures('exact_args', ev.fn is old(self._action) and seq(ev.args) == seq(args) and same_dict_old(ev.kwargs, kwargs))
    ensures('outcome_reported', self._state == 'FINISHED'
            and (self._exception is attr(ev, 'raised') if attr(ev, 'raised') is not None
                 else (self._exception is None and self._result is attr(ev, 'result'))))
    ensures('spent', self._action is None)
    raises(plumpy.futures.InvalidStateError, old(self._state) != 'PENDING' and len(calls()) == old(len(calls()))
           and unchanged(self._state, self._result, self._exception, self._action))
    # aborted by a BaseException-only class: it propagates, and the action is spent all the same (never runs a second time)
    raises(BaseException, not isinstance(exc, Exception) and old(self._state) == 'PENDING' and len(calls()) == old(len(calls())) + 1
           and exc is attr(calls()[len(calls()) - 1], 'raised') and self._action is None)
    replay('ran_once', 'cancellable_action')
    replay('outcome_reported', 'cancellable_action')
    replay('raises_only_declared', 'cancellable_action')


@contract('plumpy.futures.unwrap_kiwi_future.<unwrap>', props=['C20'])
def unwrap(fut):
    """done-callback of one level of the chain; `unwrapping` is the outer future, `unwrap` this closure itself"""
    requires(isinstance(fut, kiwipy.Future) and fut._state != 'PENDING')
    requires(isinstance(unwrapping, kiwipy.Future) and unwrapping._state == 'PENDING' and unwrapping is not fut)
    requires(implies(isinstance(fut._result, kiwipy.Future), is_list(fut._result._callbacks) and fut._result is not unwrapping))
    inner = fut._result
    modifies(unwrapping._state, unwrapping._result, unwrapping._exception, contents(inner._callbacks))
    raises_nothing()
    ensures('cancellation', implies(old(fut._state) == 'CANCELLED', unwrapping._state == 'CANCELLED'))
    ensures('exception', implies(old(fut._state) == 'FINISHED' and fut._exception is not None,
                                 unwrapping._state == 'FINISHED' and unwrapping._exception is fut._exception))
    ensures('chain', implies(old(fut._state) == 'FINISHED' and fut._exception is None and isinstance(inner, kiwipy.Future),
                             unwrapping._state == 'PENDING'
                             and implies(inner._state == 'PENDING', seq(inner._callbacks) == old(seq(inner._callbacks)) + [unwrap])))
    ensures('value', implies(old(fut._state) == 'FINISHED' and fut._exception is None and not isinstance(inner, kiwipy.Future),
                             unwrapping._state == 'FINISHED' and unwrapping._exception is None and unwrapping._result is inner))
    replay('cancellation', 'unwrap_kiwi')
    replay('exception', 'unwrap_kiwi')
    replay('chain', 'unwrap_kiwi')
    replay('value', 'unwrap_kiwi')
    replay('raises_nothing', 'unwrap_kiwi')


# ------------------------------------------------------------------------------------------------ create_task (C20)
@contract('plumpy.futures.create_task.<run_task>', props=['C20'])
def run_task():
    """the coroutine create_task schedules: `future` (closure variable) ends with exactly the outcome of the scheduled
    computation -- its value, its Exception, or its cancellation -- and only a cancellation (or another BaseException-only class)
    propagates into the task that runs it"""
    requires(isinstance(future, asyncio.Future) and future._state == 'PENDING')
    requires(is_heap_obj(coro))
    n0 = len(calls())
    modifies(user_effects, future._state, future._result, future._exception)
    ev = calls()[n0]
    ensures('called_once_without_arguments', len(calls()) == n0 + 1 and ev.fn is coro and len(seq(ev.args)) == 0)
    ensures('value', implies(attr(ev, 'raised') is None, future._state == 'FINISHED' and future._exception is None
                             and future._result is (attr(ev, 'awaited') if attr(ev, 'was_awaited') else attr(ev, 'result'))))
    ensures('exception', implies(attr(ev, 'raised') is not None, isinstance(attr(ev, 'raised'), Exception)
                                 and future._state == 'FINISHED' and future._exception is attr(ev, 'raised')))
    raises(asyncio.CancelledError, future._state == 'CANCELLED' and len(calls()) == n0 + 1)
    raises(BaseException, not isinstance(exc, Exception) and not isinstance(exc, asyncio.CancelledError) and len(calls()) == n0 + 1)
    replay('value', 'task_outcomes')
    replay('exception', 'task_outcomes')
    replay('raises_only_declared', 'task_outcomes')


# ------------------------------------------------------------------------------------------------ loop future -> communicator future (C20)
@contract('plumpy.communications.plum_to_kiwi_future', props=['C20'], result_class='kiwipy.Future')
def plum_to_kiwi_future(plum_future):
    """the mirror is a fresh pending communicator future; exactly one done-callback is registered on the loop future"""
    requires(isinstance(plum_future, asyncio.Future) and wf_future(plum_future))
    modifies(contents(plum_future._callbacks), ghost('CB'))
    raises_nothing()
    ensures('fresh_pending_mirror', fresh(ret) and ret._state == 'PENDING')
    ensures('one_callback_registered', implies(plum_future._state == 'PENDING',
                                               len(seq(plum_future._callbacks)) == old(len(seq(plum_future._callbacks))) + 1))


@contract('plumpy.communications.plum_to_kiwi_future.<on_done>', props=['C20'])
def plum_on_done(_plum_future):
    """done-callback of the loop future: the mirror (`kiwi_future`, closure variable) ends with the cancellation, the exception or
    the value of the loop future -- a value that is itself a loop future is mirrored in turn -- and nothing escapes"""
    requires(isinstance(plum_future, asyncio.Future) and wf_future(plum_future) and plum_future._state != 'PENDING')
    requires(isinstance(kiwi_future, kiwipy.Future) and kiwi_future._state == 'PENDING')
    requires(implies(isinstance(plum_future._result, asyncio.Future), wf_future(plum_future._result)))
    inner = plum_future._result
    modifies(kiwi_future._state, kiwi_future._result, kiwi_future._exception, contents(inner._callbacks, when=isinstance(inner, asyncio.Future)),
             ghost('CB'))
    raises_nothing()
    ensures('cancellation', implies(plum_future._state == 'CANCELLED', kiwi_future._state == 'CANCELLED'))
    ensures('exception', implies(plum_future._state == 'FINISHED' and plum_future._exception is not None
                                 and isinstance(plum_future._exception, Exception),
                                 kiwi_future._state == 'FINISHED' and kiwi_future._exception is plum_future._exception))
    ensures('value', implies(plum_future._state == 'FINISHED' and plum_future._exception is None and not isinstance(inner, asyncio.Future),
                             kiwi_future._state == 'FINISHED' and kiwi_future._exception is None and kiwi_future._result is inner))
    ensures('future_value_is_mirrored', implies(plum_future._state == 'FINISHED' and plum_future._exception is None and isinstance(inner, asyncio.Future),
                                                kiwi_future._state == 'FINISHED' and kiwi_future._exception is None
                                                and isinstance(kiwi_future._result, kiwipy.Future) and fresh(kiwi_future._result)))
    replay('cancellation', 'task_outcomes')
    replay('exception', 'task_outcomes')
    replay('value', 'task_outcomes')
    replay('future_value_is_mirrored', 'task_outcomes')
    replay('raises_nothing', 'task_outcomes')
