# -*- coding: utf-8 -*-
"""Side-car contracts for plumpy.process_states and the state factory (C13, C01, C06).  Parsed with ast by pyvc."""
from plumpy.base.state_machine import StateMachine
from plumpy.process_states import (Command, Continue, Created, Excepted, Finished, Interruption, Kill, Killed,
                                   ProcessState, Running, State, Stop, Wait, Waiting)
from plumpy.processes import Process
from plumpy.workchains import WorkChain
import plumpy.workchains

CONFIG = {
    'attr_types': {
        'plumpy.base.state_machine.State.state_machine': 'plumpy.processes.Process',
        'plumpy.process_states.Continue.args': 'tuple',
        'plumpy.process_states.Continue.kwargs': 'dict',
        'plumpy.process_states.Running.args': 'tuple',
        'plumpy.process_states.Running.kwargs': 'dict',
        'plumpy.process_states.Created.args': 'tuple',
        'plumpy.process_states.Created.kwargs': 'dict',
    },
    'user_havoc': 'all',
    'protected_classes': ['plumpy.base.state_machine.State', 'plumpy.process_states.Command',
                          'plumpy.base.state_machine.StateMachine'],
}


@spec
def wraps(w, f):
    """w is f itself or the functools.wraps-wrapper ensure_coroutine puts around it"""
    return w is f or (is_ref(w) and attr(w, '__wrapped__') is f)


@contract('plumpy.utils.ensure_coroutine', assumed=True)
def ensure_coroutine(coro_or_fn):
    """ASSUMED (reflection: asyncio.iscoroutinefunction / inspect.isclass / functools.wraps): the result is the
    argument itself or a wrapper whose __wrapped__ is the argument; the wrapper's body is verified separately
    (plumpy.utils.ensure_coroutine.<wrap>)."""
    modifies()
    ensures(wraps(result, coro_or_fn))
    ensures(result is not None)
    raises(TypeError, not callable_(coro_or_fn))


@contract('plumpy.base.state_machine.StateMachine.get_states_map', assumed=True)
def get_states_map(cls):
    """ASSUMED (class-level lazy table built by __ensure_built from get_states()/get_state_classes(); checked at run
    time by the bounded stand-in): label -> state class, WAITING being overridden by WorkChain."""
    modifies()
    raises_nothing()
    ensures(is_dict(result))
    ensures(forall(lambda k: dhas(result, k) == (k is ProcessState.CREATED or k is ProcessState.RUNNING or k is ProcessState.WAITING
                                                or k is ProcessState.FINISHED or k is ProcessState.EXCEPTED or k is ProcessState.KILLED)))
    ensures(dget(result, ProcessState.CREATED) is Created and dget(result, ProcessState.RUNNING) is Running
            and dget(result, ProcessState.FINISHED) is Finished and dget(result, ProcessState.EXCEPTED) is Excepted
            and dget(result, ProcessState.KILLED) is Killed)
    ensures(dget(result, ProcessState.WAITING) is (plumpy.workchains.Waiting if issubclass_of(cls, WorkChain) else Waiting))


@spec
def wf_continue(c):
    """class invariant of Continue (established by Continue.__init__: *args tuple, **kwargs dict with str keys)"""
    return is_tuple(c.args) and is_dict(c.kwargs) and dlen(c.kwargs) >= 0 and forall(lambda k: implies(dhas(c.kwargs, k), is_str(k)))


@contract('plumpy.process_states.Running._action_command', props=['C13'])
def _action_command(self, command):
    requires(not isinstance(self.state_machine, WorkChain))
    requires(implies(isinstance(command, Continue), wf_continue(command)))
    modifies()
    ensures('kill', implies(isinstance(command, Kill), type_is(result, Killed) and fresh(result) and result.msg is command.msg))
    ensures('stop', implies(isinstance(command, Stop), type_is(result, Finished) and fresh(result)
                            and result.result is command.result and result.successful is command.successful))
    ensures('wait', implies(isinstance(command, Wait), type_is(result, Waiting) and fresh(result)
                            and result.done_callback is command.continue_fn and result.msg is command.msg
                            and result.data is command.data))
    ensures('continue_fn', implies(isinstance(command, Continue), type_is(result, Running) and fresh(result)
                                   and wraps(result.run_fn, command.continue_fn)))
    ensures('continue_args', implies(isinstance(command, Continue), seq(result.args) == seq(command.args)))
    ensures('continue_kwargs', implies(isinstance(command, Continue), same_dict(result.kwargs, command.kwargs)))
    ensures('belongs', result.state_machine is self.state_machine)
    raises(ValueError, not isinstance(command, (Kill, Stop, Wait, Continue)))
    raises(AssertionError, isinstance(command, Continue) and command.continue_fn is None)
    raises(TypeError, isinstance(command, Continue) and not callable_(command.continue_fn))
    replay('kill', 'action_command')
    replay('stop', 'action_command')
    replay('wait', 'action_command')
    replay('continue_fn', 'action_command')
    replay('continue_args', 'action_command')
    replay('continue_kwargs', 'action_command')
