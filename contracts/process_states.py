# -*- coding: utf-8 -*-
"""Side-car contracts for plumpy.process_states and the state factory (C13, C01, C06).  Parsed with ast by pyvc."""
from plumpy.base.state_machine import StateMachine
from plumpy.process_states import (Command, Continue, Created, Excepted, Finished, Interruption, Kill, Killed,
                                   ProcessState, Running, State, Stop, Wait, Waiting)
from plumpy.processes import Process
from plumpy.workchains import WorkChain
from plumpy.exceptions import UnsuccessfulResult
from plumpy.lang import NULL
import plumpy.lang
import asyncio
import plumpy.workchains

CONFIG = {
    'attr_types': {
        'plumpy.base.state_machine.State.state_machine': 'plumpy.processes.Process',
        'plumpy.process_states.Continue.args': 'tuple',
        'plumpy.process_states.Continue.kwargs': 'dict',
        'plumpy.process_states.Running.args': 'tuple',
        'plumpy.process_states.Running.kwargs': 'dict',
        'plumpy.process_states.Created.args': 'tuple',
        'plumpy.process_states.Created.kwargs': 'dict',
        'plumpy.process_states.Waiting._waiting_future': 'asyncio.Future',
    },
    'class_invariants': {'plumpy.process_states.Continue': 'wf_continue'},
    'user_havoc': 'all',
    'protected_classes': ['plumpy.base.state_machine.State', 'plumpy.process_states.Command',
                          'plumpy.base.state_machine.StateMachine'],
}


@spec
def wraps(w, f):
    """w is f itself or the functools.wraps-wrapper ensure_coroutine puts around it"""
    return w is f or (is_ref(w) and attr(w, '__wrapped__') is f)


@contract('plumpy.utils.ensure_coroutine', assumed=True)
def ensure_coroutine(coro_or_fn):
    """ASSUMED (reflection: asyncio.iscoroutinefunction / inspect.isclass / functools.wraps): the result is the
    argument itself or a wrapper whose __wrapped__ is the argument; the wrapper's body is verified separately
    (plumpy.utils.ensure_coroutine.<wrap>)."""
    modifies()
    ensures(wraps(result, coro_or_fn))
    ensures(result is coro_or_fn or is_function(result))      # the wrapper is a plain function object (functools.wraps closure)
    ensures(result is not None)
    raises(TypeError, not callable_(coro_or_fn))


@contract('plumpy.base.state_machine.StateMachine.get_states_map', assumed=True)
def get_states_map(cls):
    """ASSUMED (class-level lazy table built by __ensure_built from get_states()/get_state_classes(); checked at run
    time by the bounded stand-in): label -> state class, WAITING being overridden by WorkChain."""
    modifies()
    raises_nothing()
    ensures(is_dict(result))
    ensures(forall(lambda k: dhas(result, k) == (k is ProcessState.CREATED or k is ProcessState.RUNNING or k is ProcessState.WAITING
                                                or k is ProcessState.FINISHED or k is ProcessState.EXCEPTED or k is ProcessState.KILLED)))
    ensures(dget(result, ProcessState.CREATED) is Created and dget(result, ProcessState.RUNNING) is Running
            and dget(result, ProcessState.FINISHED) is Finished and dget(result, ProcessState.EXCEPTED) is Excepted
            and dget(result, ProcessState.KILLED) is Killed)
    ensures(dget(result, ProcessState.WAITING) is (plumpy.workchains.Waiting if issubclass_of(cls, WorkChain) else Waiting))


@spec
def wf_continue(c):
    """class invariant of Continue (established by Continue.__init__: *args tuple, **kwargs dict with str keys)"""
    return is_tuple(c.args) and is_dict(c.kwargs) and dlen(c.kwargs) >= 0 and forall(lambda k: implies(dhas(c.kwargs, k), is_str(k)))


@contract('plumpy.process_states.Running._action_command', props=['C13'])
def _action_command(self, command):
    requires(not isinstance(self.state_machine, WorkChain))
    requires(implies(isinstance(command, Continue), wf_continue(command)))
    modifies()
    ensures('kill', implies(isinstance(command, Kill), type_is(result, Killed) and fresh(result) and result.msg is command.msg))
    ensures('stop', implies(isinstance(command, Stop), type_is(result, Finished) and fresh(result)
                            and result.result is command.result and result.successful is command.successful))
    ensures('wait', implies(isinstance(command, Wait), type_is(result, Waiting) and fresh(result)
                            and result.done_callback is command.continue_fn and result.msg is command.msg
                            and result.data is command.data))
    ensures('continue_fn', implies(isinstance(command, Continue), type_is(result, Running) and fresh(result)
                                   and wraps(result.run_fn, command.continue_fn)))
    ensures('continue_args', implies(isinstance(command, Continue), seq(result.args) == seq(command.args)))
    ensures('continue_kwargs', implies(isinstance(command, Continue), same_dict(result.kwargs, command.kwargs)))
    ensures('belongs', result.state_machine is self.state_machine)
    raises(ValueError, not isinstance(command, (Kill, Stop, Wait, Continue)))
    raises(AssertionError, isinstance(command, Continue) and command.continue_fn is None)
    raises(TypeError, isinstance(command, Continue) and not callable_(command.continue_fn))
    replay('kill', 'action_command')
    replay('stop', 'action_command')
    replay('wait', 'action_command')
    replay('continue_fn', 'action_command')
    replay('continue_args', 'action_command')
    replay('continue_kwargs', 'action_command')


# ------------------------------------------------------------------------------------------------ commands
@contract('plumpy.process_states.Continue.__init__', props=['C13'])
def continue_init(self, continue_fn, *args, **kwargs):
    requires(forall(lambda k: implies(dhas(kwargs, k), is_str(k))))
    modifies(fields(self))
    raises_nothing()
    ensures('payload', self.continue_fn is continue_fn and seq(self.args) == seq(args) and same_dict(self.kwargs, kwargs))
    ensures('invariant', wf_continue(self))


@contract('plumpy.process_states.Wait.__init__', props=['C13'])
def wait_init(self, continue_fn=None, msg=None, data=None):
    modifies(fields(self))
    raises_nothing()
    ensures('payload', self.continue_fn is continue_fn and self.msg is msg and self.data is data)


@contract('plumpy.process_states.Stop.__init__', props=['C13'])
def stop_init(self, result, successful):
    modifies(fields(self))
    raises_nothing()
    ensures('payload', self.result is result and self.successful is successful)


@contract('plumpy.process_states.Kill.__init__', props=['C13'])
def kill_init(self, msg=None):
    modifies(fields(self))
    raises_nothing()
    ensures('payload', self.msg is msg)


# ------------------------------------------------------------------------------------------------ the step wrapper
@contract('plumpy.utils.ensure_coroutine.<wrap>', props=['C13'])
def ensure_coroutine_wrap(*args, **kwargs):
    """the closure ensure_coroutine puts around a plain function: calls it exactly once with the same arguments"""
    requires(is_heap_obj(coro_or_fn))
    modifies(all_heap)
    ev = calls()[len(calls()) - 1]
    ensures('one_call', len(calls()) == old(len(calls())) + 1 and take(calls(), old(len(calls()))) == old(calls()))
    ensures('exact_args', ev.fn is coro_or_fn and seq(ev.args) == seq(args) and same_dict_old(ev.kwargs, kwargs))
    ensures('result', ret is attr(ev, 'result'))


# ------------------------------------------------------------------------------------------------ states
@spec
def maps_command(res, cmd, sm):
    """DESIGN D / C13: the state a command denotes"""
    return ((implies(isinstance(cmd, Kill), type_is(res, Killed) and res.msg is cmd.msg))
            and implies(isinstance(cmd, Stop), type_is(res, Finished) and res.result is cmd.result and res.successful is cmd.successful)
            and implies(isinstance(cmd, Wait), type_is(res, Waiting) and res.done_callback is cmd.continue_fn and res.msg is cmd.msg and res.data is cmd.data)
            and implies(isinstance(cmd, Continue), type_is(res, Running) and wraps(res.run_fn, cmd.continue_fn)
                        and seq(res.args) == seq(cmd.args) and same_dict(res.kwargs, cmd.kwargs))
            and res.state_machine is sm)


@contract('plumpy.process_states.Running.__init__', props=['C13'])
def running_init(self, process, run_fn, *args, **kwargs):
    requires(isinstance(process, Process))
    modifies(fields(self))
    ensures('payload', self.state_machine is process and wraps(self.run_fn, run_fn) and seq(self.args) == seq(args)
            and same_dict(self.kwargs, kwargs) and self.in_state is False)
    raises(AssertionError, run_fn is None)
    raises(TypeError, not callable_(run_fn))


@contract('plumpy.process_states.Created.execute', props=['C13'])
def created_execute(self):
    requires(not isinstance(self.state_machine, WorkChain))
    requires(is_tuple(self.args) and is_dict(self.kwargs))
    modifies()
    ensures('first_step', type_is(result, Running) and fresh(result) and wraps(result.run_fn, self.run_fn)
            and seq(result.args) == seq(self.args) and same_dict(result.kwargs, self.kwargs)
            and result.state_machine is self.state_machine)
    raises(AssertionError, self.run_fn is None)
    raises(TypeError, not callable_(self.run_fn))


@contract('plumpy.process_states.Running.execute', props=['C13'])
def running_execute(self):
    requires(self._command is None)
    requires(not isinstance(self.state_machine, WorkChain))
    requires(is_heap_obj(self.run_fn) and is_tuple(self.args) and is_dict(self.kwargs))
    modifies(all_heap)
    ev = calls()[len(calls()) - 1]
    v = attr(ev, 'awaited')
    failed = attr(ev, 'raised') is not None
    ensures('one_call', len(calls()) == old(len(calls())) + 1 and take(calls(), old(len(calls()))) == old(calls()))
    ensures('exact_args', ev.fn is old(self.run_fn) and seq(ev.args) == old(seq(self.args)) and same_dict_old(ev.kwargs, self.kwargs))
    ensures('excepted', implies(failed, type_is(result, Excepted) and result.exception is attr(ev, 'raised')))
    ensures('command', implies(not failed and isinstance(v, Command), maps_command(result, v, self.state_machine)))
    ensures('unsuccessful', implies(not failed and not isinstance(v, Command) and isinstance(v, UnsuccessfulResult),
                                    type_is(result, Finished) and result.result is v.result and result.successful is False))
    ensures('plain_value', implies(not failed and not isinstance(v, Command) and not isinstance(v, UnsuccessfulResult),
                                   type_is(result, Finished) and result.result is v and result.successful is True))
    ensures('not_running', self._running is False)
    raises(Interruption, exc is attr(calls()[len(calls()) - 1], 'raised') and self._running is False)
    raises(ValueError, isinstance(attr(calls()[len(calls()) - 1], 'awaited'), Command)
           and not isinstance(attr(calls()[len(calls()) - 1], 'awaited'), (Kill, Stop, Wait, Continue)))
    raises(AssertionError, isinstance(attr(calls()[len(calls()) - 1], 'awaited'), Continue)
           and attr(calls()[len(calls()) - 1], 'awaited').continue_fn is None)
    raises(TypeError, isinstance(attr(calls()[len(calls()) - 1], 'awaited'), Continue)
           and not callable_(attr(calls()[len(calls()) - 1], 'awaited').continue_fn))


@contract('plumpy.process_states.Waiting.__init__', props=['C13'])
def waiting_init(self, process, done_callback, msg=None, data=None):
    requires(isinstance(process, Process))
    modifies(fields(self))
    raises_nothing()
    ensures('payload', self.state_machine is process and self.done_callback is done_callback and self.msg is msg
            and self.data is data and self.in_state is False)
    ensures('armed', isinstance(self._waiting_future, asyncio.Future) and fresh(self._waiting_future)
            and self._waiting_future._state == 'PENDING')


@contract('plumpy.process_states.Waiting.resume', props=['C13', 'C06'])
def waiting_resume(self, value=NULL):
    requires(isinstance(self._waiting_future, asyncio.Future))
    wf = self._waiting_future
    modifies(wf._state, wf._result)
    raises_nothing()
    ensures('first_resume_records', implies(old(wf._state) == 'PENDING', wf._state == 'FINISHED' and wf._result is value))
    ensures('later_resume_ignored', implies(old(wf._state) != 'PENDING', unchanged(wf._state, wf._result)))
    replay('first_resume_records', 'waiting_resume')


@contract('plumpy.process_states.Waiting.interrupt', props=['C04', 'C05', 'C06'])
def waiting_interrupt(self, reason):
    """an interruption is delivered to the coroutine waiting in execute() through the waiting future; nothing else changes"""
    requires(isinstance(self._waiting_future, asyncio.Future))
    wf = self._waiting_future
    modifies(wf._state, wf._exception)
    ensures('delivered', old(wf._state) == 'PENDING' and wf._state == 'FINISHED' and wf._exception is reason)
    raises(asyncio.InvalidStateError, old(wf._state) != 'PENDING' and unchanged(wf._state, wf._exception))


@contract('plumpy.process_states.Waiting.execute', props=['C13', 'C06'])
def waiting_execute(self):
    requires(isinstance(self._waiting_future, asyncio.Future))
    requires(not isinstance(self.state_machine, WorkChain))
    modifies(all_heap)
    wf = old(self._waiting_future)
    ensures('woken', wf._state == 'FINISHED' and wf._exception is None and self._waiting_future is wf)
    ensures('continuation', type_is(result, Running) and wraps(result.run_fn, self.done_callback)
            and result.state_machine is self.state_machine and dlen(result.kwargs) == 0)
    ensures('value_forwarded', implies(not isinstance(wf._result, plumpy.lang.__NULL), seq(result.args) == [wf._result]))
    ensures('no_value', implies(isinstance(wf._result, plumpy.lang.__NULL), len(seq(result.args)) == 0))
    raises(Interruption, old(self._waiting_future)._exception is exc and fresh(self._waiting_future) and self._waiting_future._state == 'PENDING')
    raises(BaseException, not isinstance(exc, Interruption) and self._waiting_future is old(self._waiting_future)
           and (old(self._waiting_future)._state == 'CANCELLED' or old(self._waiting_future)._exception is exc))
    raises(AssertionError, self.done_callback is None)
    raises(TypeError, not callable_(self.done_callback))


# ------------------------------------------------------------------------------------------------ checkpoints of the states (C07, C08, C13)
from plumpy.persistence import LoadSaveContext, Savable


@spec
def state_load_context(c):
    """the load context a process hands to its state: it names the process the state belongs to"""
    return isinstance(c, LoadSaveContext) and wf_lsc(c) and dhas(c._values, 'process') and isinstance(dget(c._values, 'process'), Process)


@contract('plumpy.process_states.Created.save_instance_state', props=['C07', 'C08', 'C13'], ghost=['M', 'K'])
def created_save(self, out_state, save_context, M=None, K=None):
    """a CREATED state's checkpoint: the continuation by NAME, its positional and keyword arguments by value (M: either member)"""
    requires((M == 'args' or M == 'kwargs') and K == 'run_fn')
    requires(type_is(self, Created) and is_dict(out_state) and wf_state(out_state) and not dhas(out_state, 'run_fn'))
    requires(is_method(self.run_fn))
    modifies(contents(out_state), contents(dget(out_state, '!!meta'), when=dhas(out_state, '!!meta')),
             contents(dget(dget(out_state, '!!meta'), 'types'), when=dhas(out_state, '!!meta') and dhas(dget(out_state, '!!meta'), 'types')),
             ghost('LASTSAVED'), self._persist_configured)
    ensures('continuation_by_name', dhas(out_state, 'run_fn') and dget(out_state, 'run_fn') == attr(self.run_fn, '__name__'))
    ensures('arguments_by_value', saved_member(self, out_state, M, attr(self, M)))
    raises(Exception, True)     # a nested Savable's save() is unknown code; a method of another object is refused
    replay('continuation_by_name', 'bundle_roundtrip')
    replay('arguments_by_value', 'bundle_roundtrip')


# (the load side -- `getattr(process, <recorded name>)` -- splits over every member name of Process and its subclasses; both
#  solvers need minutes per obligation on the resulting string constraints: covered by the bounded searches bundle_roundtrip
#  and checkpoint_resume instead)


@contract('plumpy.process_states.Running.save_instance_state', props=['C07', 'C08', 'C13'], ghost=['M', 'K'])
def running_save(self, out_state, save_context, M=None, K=None):
    """a RUNNING state's checkpoint: the continuation by NAME, its arguments by value, and the pending command if the step
    function already returned one"""
    requires((M == 'args' or M == 'kwargs') and K == 'run_fn')
    requires(type_is(self, Running) and is_dict(out_state) and wf_state(out_state) and not dhas(out_state, 'run_fn') and not dhas(out_state, 'command'))
    requires(is_heap_obj(self.run_fn) and (self._command is None or isinstance(self._command, Command)))
    cmd = self._command
    modifies(contents(out_state), contents(dget(out_state, '!!meta'), when=dhas(out_state, '!!meta')),
             contents(dget(dget(out_state, '!!meta'), 'types'), when=dhas(out_state, '!!meta') and dhas(dget(out_state, '!!meta'), 'types')),
             ghost('LASTSAVED'), self._persist_configured)
    ensures('continuation_by_name', dhas(out_state, 'run_fn') and dget(out_state, 'run_fn') is attr(self.run_fn, '__name__'))
    ensures('arguments_by_value', saved_member(self, out_state, M, attr(self, M)))
    ensures('pending_command_recorded', implies(cmd is not None, dhas(out_state, 'command') and uf('saved_of', dget(out_state, 'command')) is cmd))
    raises(Exception, True)
    replay('continuation_by_name', 'bundle_roundtrip')
    replay('arguments_by_value', 'bundle_roundtrip')
    replay('pending_command_recorded', 'bundle_roundtrip')


@contract('plumpy.process_states.Waiting.save_instance_state', props=['C07', 'C08', 'C13'], ghost=['M', 'K'])
def waiting_save(self, out_state, save_context, M=None, K=None):
    """a WAITING state's checkpoint: message and data by value, the continuation by NAME when there is one"""
    requires((M == 'msg' or M == 'data') and K == 'DONE_CALLBACK')
    requires(type_is(self, Waiting) and is_dict(out_state) and wf_state(out_state) and not dhas(out_state, 'DONE_CALLBACK'))
    requires(self.done_callback is None or is_heap_obj(self.done_callback))
    cb = self.done_callback
    modifies(contents(out_state), contents(dget(out_state, '!!meta'), when=dhas(out_state, '!!meta')),
             contents(dget(dget(out_state, '!!meta'), 'types'), when=dhas(out_state, '!!meta') and dhas(dget(out_state, '!!meta'), 'types')),
             ghost('LASTSAVED'), self._persist_configured)
    ensures('continuation_by_name', dhas(out_state, 'DONE_CALLBACK') == (cb is not None)
            and implies(cb is not None, dget(out_state, 'DONE_CALLBACK') is attr(cb, '__name__')))
    ensures('message_and_data_by_value', saved_member(self, out_state, M, attr(self, M)))
    raises(Exception, True)
    replay('continuation_by_name', 'bundle_roundtrip')
    replay('message_and_data_by_value', 'bundle_roundtrip')
