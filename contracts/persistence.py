# -*- coding: utf-8 -*-
"""Side-car contracts for plumpy.persistence (C19, C07, C14).  Parsed with ast by pyvc; never executed."""
import asyncio
import copy
import types
from plumpy import loaders
from plumpy.loaders import ObjectLoader, DefaultObjectLoader
from plumpy.persistence import (META, META__CLASS_NAME, META__OBJECT_LOADER, META__TYPE__METHOD, META__TYPE__SAVABLE,
                                META__TYPES, META__USER, Bundle, LoadSaveContext, Savable, SavableFuture)

CONFIG = {
    'attr_types': {
        'plumpy.persistence.LoadSaveContext._values': 'dict',
        'plumpy.persistence.LoadSaveContext.loader': 'None|plumpy.loaders.ObjectLoader',
    },
    'user_havoc': 'all',
    'protected_classes': ['plumpy.persistence.LoadSaveContext'],
    # ghost: the saved-state mapping most recently produced by Savable.save() of an object
    # INDEP: history flag of a Bundle: it was filled from a fresh deep copy of the saved state (set at construction)
    # LOADED: the object most recently recreated from a saved-state mapping (keyed by the mapping)
    # SAVECTX: the save context a saved-state mapping was produced with (ghost of the assumed Savable.save)
    'ghost_arrays': {'LASTSAVED': 'val', 'INDEP': 'bool', 'LOADED': 'val', 'SAVECTX': 'val'},
}


# ------------------------------------------------------------------------------------------------ abstract view of a saved state
@spec
def wf_state(s):
    """shape of a saved-state mapping: a dict whose '!!meta' entry, if any, is a dict with dict-valued 'user'/'types';
    the nesting is a tree (no dict is its own ancestor or sibling)"""
    return (is_dict(s) and dlen(s) >= 0
            and implies(dhas(s, '!!meta'), is_dict(dget(s, '!!meta')) and dget(s, '!!meta') is not s
                        and implies(dhas(dget(s, '!!meta'), 'user'), is_dict(dget(dget(s, '!!meta'), 'user'))
                                    and dget(dget(s, '!!meta'), 'user') is not s
                                    and dget(dget(s, '!!meta'), 'user') is not dget(s, '!!meta'))
                        and implies(dhas(dget(s, '!!meta'), 'types'), is_dict(dget(dget(s, '!!meta'), 'types'))
                                    and dget(dget(s, '!!meta'), 'types') is not s
                                    and dget(dget(s, '!!meta'), 'types') is not dget(s, '!!meta'))
                        and implies(dhas(dget(s, '!!meta'), 'user') and dhas(dget(s, '!!meta'), 'types'),
                                    dget(dget(s, '!!meta'), 'user') is not dget(dget(s, '!!meta'), 'types'))))


@spec
def has_custom_meta(s, name):
    return dhas(s, '!!meta') and dhas(dget(s, '!!meta'), 'user') and dhas(dget(dget(s, '!!meta'), 'user'), name)


@spec
def custom_meta(s, name):
    """user metadata lives in its own namespace '!!meta' / 'user' (it must not collide with class_name / types)"""
    return dget(dget(dget(s, '!!meta'), 'user'), name)


@spec
def has_meta_type(s, name):
    return dhas(s, '!!meta') and dhas(dget(s, '!!meta'), 'types') and dhas(dget(dget(s, '!!meta'), 'types'), name)


@spec
def meta_type(s, name):
    return dget(dget(dget(s, '!!meta'), 'types'), name)


@contract('plumpy.persistence.Savable._get_create_meta', props=['C19'])
def _get_create_meta(out_state):
    requires(wf_state(out_state))
    modifies(contents(out_state))
    raises_nothing()
    ensures('is_meta', dhas(out_state, '!!meta') and result is dget(out_state, '!!meta') and is_dict(result))
    ensures('existing_kept', implies(old(dhas(out_state, '!!meta')), result is old(dget(out_state, '!!meta')) and dict_unchanged(out_state)))
    ensures('created_empty', implies(not old(dhas(out_state, '!!meta')), fresh(result) and dlen(result) == 0
                                     and forall(lambda k: not dhas(result, k))))
    ensures('others_kept', forall(lambda k: implies(k != '!!meta', dhas(out_state, k) == old(dhas(out_state, k))
                                                     and dget(out_state, k) is old(dget(out_state, k)))))


@contract('plumpy.persistence.Savable.set_custom_meta', props=['C19'])
def set_custom_meta(out_state, name, value):
    requires(wf_state(out_state) and is_str(name))
    modifies(all_heap)
    raises_nothing()
    ensures('recorded', has_custom_meta(out_state, name) and custom_meta(out_state, name) is value)
    ensures('wf', wf_state(out_state))
    replay('recorded', 'custom_meta_roundtrip')


@contract('plumpy.persistence.Savable.get_custom_meta', props=['C19'])
def get_custom_meta(saved_state, name):
    requires(wf_state(saved_state) and is_str(name))
    modifies()
    ensures('reads_recorded', has_custom_meta(saved_state, name) and result is custom_meta(saved_state, name))
    raises(ValueError, not has_custom_meta(saved_state, name))
    replay('reads_recorded', 'custom_meta_roundtrip')
    replay('raises_only_declared', 'custom_meta_roundtrip')


@contract('plumpy.persistence.Savable._set_class_name', props=['C19'])
def _set_class_name(out_state, name):
    requires(wf_state(out_state))
    modifies(all_heap)
    raises_nothing()
    ensures('recorded', dhas(out_state, '!!meta') and dhas(dget(out_state, '!!meta'), 'class_name')
            and dget(dget(out_state, '!!meta'), 'class_name') is name)
    ensures('wf', wf_state(out_state))


@contract('plumpy.persistence.Savable._get_class_name', props=['C19'])
def _get_class_name(saved_state):
    """reads the recorded class name; (it goes through _get_create_meta, so a state without metadata gains an empty
    '!!meta' entry before the KeyError)"""
    requires(wf_state(saved_state))
    modifies(contents(saved_state))
    ensures('reads_recorded', result is dget(dget(saved_state, '!!meta'), 'class_name') and dict_unchanged(saved_state)
            and dhas(saved_state, '!!meta') and dhas(dget(saved_state, '!!meta'), 'class_name'))
    raises(KeyError, not (old(dhas(saved_state, '!!meta')) and old(dhas(dget(saved_state, '!!meta'), 'class_name'))))


@contract('plumpy.persistence.Savable._set_meta_type', props=['C19'], ghost=['M', 'K'])
def _set_meta_type(out_state, name, type_spec, M=None, K=None):
    """K: an arbitrary top-level key, M: an arbitrary member name (pointwise frame)"""
    requires(wf_state(out_state) and is_str(name))
    requires(is_str(M) and is_str(K))
    modifies(contents(out_state), contents(dget(out_state, '!!meta'), when=dhas(out_state, '!!meta')),
             contents(dget(dget(out_state, '!!meta'), 'types'), when=dhas(out_state, '!!meta') and dhas(dget(out_state, '!!meta'), 'types')))
    raises_nothing()
    ensures('recorded', has_meta_type(out_state, name) and meta_type(out_state, name) is type_spec)
    ensures('wf', wf_state(out_state))
    ensures('entries_kept', implies(K != '!!meta', dhas(out_state, K) == old(dhas(out_state, K))
                                    and dget(out_state, K) is old(dget(out_state, K))))
    ensures('meta_origin', (old(dhas(out_state, '!!meta')) and dget(out_state, '!!meta') is old(dget(out_state, '!!meta')))
            or (not old(dhas(out_state, '!!meta')) and fresh(dget(out_state, '!!meta'))))
    ensures('types_origin', (old(dhas(out_state, '!!meta') and dhas(dget(out_state, '!!meta'), 'types'))
                             and dget(dget(out_state, '!!meta'), 'types') is old(dget(dget(out_state, '!!meta'), 'types')))
            or (not old(dhas(out_state, '!!meta') and dhas(dget(out_state, '!!meta'), 'types')) and fresh(dget(dget(out_state, '!!meta'), 'types'))))
    ensures('entries_kept_m', implies(M != '!!meta', dhas(out_state, M) == old(dhas(out_state, M))
                                      and dget(out_state, M) is old(dget(out_state, M))))
    ensures('other_types_kept', implies(M != name, has_meta_type(out_state, M) == old(has_meta_type(out_state, M))
                                        and implies(has_meta_type(out_state, M), meta_type(out_state, M) is old(meta_type(out_state, M)))))


@contract('plumpy.persistence.Savable._get_meta_type', props=['C19'])
def _get_meta_type(saved_state, name):
    requires(wf_state(saved_state) and is_str(name))
    modifies()
    raises_nothing()
    ensures('reads_recorded', implies(has_meta_type(saved_state, name), result is meta_type(saved_state, name)))
    ensures('absent_is_none', implies(not has_meta_type(saved_state, name), result is None))


# ------------------------------------------------------------------------------------------------ loaders
@contract('plumpy.loaders.get_object_loader', assumed=True, result_class='plumpy.loaders.ObjectLoader')
def get_object_loader():
    """ASSUMED (module global OBJECT_LOADER, lazily a DefaultObjectLoader): the global default loader"""
    modifies()
    raises_nothing()
    ensures(ret is ghost_const('default_loader') and isinstance(ret, ObjectLoader))


@contract('plumpy.loaders.ObjectLoader.load_object', assumed=True, dispatch='static')
def load_object(self, identifier):
    """ASSUMED abstract-method contract (importlib for the default loader): a function of (loader, identifier);
    an identifier that cannot be resolved is a ValueError"""
    modifies()
    ensures(ret is uf('loaded', self, identifier))
    raises(ValueError, True)


@contract('plumpy.loaders.ObjectLoader.identify_object', assumed=True, dispatch='static')
def identify_object(self, obj):
    """ASSUMED abstract-method contract: the identifier loads back to the object with the same loader"""
    modifies()
    ensures(is_str(ret) and uf('loaded', self, ret) is obj)
    raises(ValueError, True)


@spec
def wf_lsc(c):
    """class invariant of LoadSaveContext: the loader is a field, never an entry of the value dictionary"""
    return is_dict(c._values) and dlen(c._values) >= 0 and not dhas(c._values, 'loader') and owned(c._values)


@contract('plumpy.persistence.LoadSaveContext.__init__', props=['C19'])
def lsc_init(self, loader=None, **kwargs):
    modifies(fields(self))
    raises_nothing()
    ghost_update('OWN', self._values, True)   # the value dictionary is private to the context object
    ensures('payload', self.loader is loader and is_dict(self._values) and fresh(self._values) and same_dict(self._values, kwargs))
    ensures('invariant', wf_lsc(self))


@contract('plumpy.persistence.LoadSaveContext.copyextend', props=['C19'])
def copyextend(self, **kwargs):
    requires(wf_lsc(self))
    modifies()
    raises_nothing()
    ensures('fresh_copy', type_is(ret, LoadSaveContext) and fresh(ret) and is_dict(ret._values) and fresh(ret._values))
    ensures('loader', ret.loader is (dget(kwargs, 'loader') if dhas(kwargs, 'loader') else self.loader))
    ensures('values', forall(lambda k: implies(k != 'loader',
                                               dhas(ret._values, k) == (dhas(kwargs, k) or dhas(self._values, k))
                                               and implies(dhas(kwargs, k), dget(ret._values, k) is dget(kwargs, k))
                                               and implies(not dhas(kwargs, k) and dhas(self._values, k), dget(ret._values, k) is dget(self._values, k)))))
    ensures('invariant', wf_lsc(ret))


@contract('plumpy.persistence._ensure_object_loader', props=['C19', 'C17'], result_class='plumpy.persistence.LoadSaveContext')
def _ensure_object_loader(context, saved_state):
    """loader precedence: the context's, else the one recorded in the saved state, else the global default"""
    requires(context is None or (isinstance(context, LoadSaveContext) and wf_lsc(context)))
    requires(wf_state(saved_state))
    # the class recorded in a saved state is a user-defined loader class (an object of the heap, not one of the classes
    # of the class table): instantiating it is a call into user code
    requires(implies(has_custom_meta(saved_state, 'object_loader'),
                     is_heap_obj(uf('loaded', ghost_const('default_loader'), custom_meta(saved_state, 'object_loader')))
                     and not is_function(uf('loaded', ghost_const('default_loader'), custom_meta(saved_state, 'object_loader')))))
    modifies(user_effects)
    has_ctx = context is not None and old(context.loader) is not None
    recorded = old(has_custom_meta(saved_state, 'object_loader'))
    ensures('context_first', implies(has_ctx, ret is context and ret.loader is old(context.loader)))
    ensures('recorded_second', implies(not has_ctx and recorded,
                                       len(calls()) == old(len(calls())) + 1
                                       and calls()[len(calls()) - 1].fn is uf('loaded', ghost_const('default_loader'), old(custom_meta(saved_state, 'object_loader')))
                                       and len(seq(calls()[len(calls()) - 1].args)) == 0
                                       and ret.loader is attr(calls()[len(calls()) - 1], 'result')))
    ensures('default_last', implies(not has_ctx and not recorded, ret.loader is ghost_const('default_loader')))
    ensures('no_user_code_otherwise', implies(has_ctx or not recorded, len(calls()) == old(len(calls()))))
    ensures('values_kept', implies(context is not None, wf_lsc(ret) and forall(lambda k: dhas(ret._values, k) == old(dhas(context._values, k))
                                                                           and implies(dhas(ret._values, k), dget(ret._values, k) is old(dget(context._values, k))))))
    ensures('is_context', isinstance(ret, LoadSaveContext) and ret.loader is not None or has_ctx or recorded)
    # the caller's context object serves several loads (ProcessLauncher keeps one): it is never pinned to the loader resolved for
    # this state -- a context without a loader comes back as a NEW context
    ensures('given_context_left_alone', implies(context is not None, context.loader is old(context.loader)
                                                and implies(old(context.loader) is None, ret is not context)))
    raises(ValueError, True)
    raises(Exception, not has_ctx and recorded)
    replay('given_context_left_alone', 'savable_members')


# ------------------------------------------------------------------------------------------------ persisters (C14)
from plumpy.persistence import InMemoryPersister, PersistedCheckpoint, PicklePersister
from plumpy.processes import Process


@spec
def wf_mem(p):
    """class invariant of InMemoryPersister: pid -> (tag -> Bundle), both levels private dictionaries"""
    return (is_dict(p._checkpoints) and dlen(p._checkpoints) >= 0 and owned(p._checkpoints)
            and forall(lambda k: implies(dhas(p._checkpoints, k), is_dict(dget(p._checkpoints, k)) and owned(dget(p._checkpoints, k))
                                         and dlen(dget(p._checkpoints, k)) >= 0 and dget(p._checkpoints, k) is not p._checkpoints))
            and forall(lambda k, j: implies(dhas(p._checkpoints, k) and dhas(p._checkpoints, j) and k != j,
                                            dget(p._checkpoints, k) is not dget(p._checkpoints, j))))


@spec
def mem_has(p, pid, tag):
    """DESIGN D.5: (pid, tag) is in the domain of the abstract map M"""
    return dhas(p._checkpoints, pid) and dhas(dget(p._checkpoints, pid), tag)


@spec
def mem_get(p, pid, tag):
    return dget(dget(p._checkpoints, pid), tag)


@contract('plumpy.persistence.InMemoryPersister.load_checkpoint', props=['C14', 'C08'])
def mem_load(self, pid, tag=None):
    """what is handed out is a COPY of the stored snapshot (so that running the loaded process cannot change what is stored: the
    same checkpoint can be resumed again); the store itself is untouched"""
    requires(wf_mem(self))
    modifies()
    ensures('returns_a_copy_of_the_snapshot', mem_has(self, pid, tag) and copied(ret, mem_get(self, pid, tag))
            and implies(type_is(mem_get(self, pid, tag), Bundle), fresh(ret) and ret is not mem_get(self, pid, tag)))
    raises(KeyError, not mem_has(self, pid, tag))
    replay('returns_a_copy_of_the_snapshot', 'checkpoint_resume')
    replay('raises_only_declared', 'persister_history')


@contract('plumpy.persistence.InMemoryPersister.delete_checkpoint', props=['C14'], ghost=['P', 'T'])
def mem_delete(self, pid, tag=None, P=None, T=None):
    requires(wf_mem(self))
    modifies(contents(dget(self._checkpoints, pid)))
    raises_nothing()
    ensures('removed', not mem_has(self, pid, tag))
    ensures('only_its_key', implies(not (P == pid and T == tag), mem_has(self, P, T) == old(mem_has(self, P, T))
                                    and implies(mem_has(self, P, T), mem_get(self, P, T) is old(mem_get(self, P, T)))))
    ensures('invariant', wf_mem(self))
    replay('removed', 'persister_history')
    replay('only_its_key', 'persister_history')
    replay('raises_nothing', 'persister_history')


@contract('plumpy.persistence.InMemoryPersister.delete_process_checkpoints', props=['C14'], ghost=['P', 'T'])
def mem_delete_process(self, pid, P=None, T=None):
    requires(wf_mem(self))
    modifies(contents(self._checkpoints))
    raises_nothing()
    ensures('all_tags_removed', not mem_has(self, pid, T))
    ensures('only_that_process', implies(P != pid, mem_has(self, P, T) == old(mem_has(self, P, T))
                                         and implies(mem_has(self, P, T), mem_get(self, P, T) is old(mem_get(self, P, T)))))
    ensures('invariant', wf_mem(self))
    replay('all_tags_removed', 'persister_history')
    replay('only_that_process', 'persister_history')


@contract('plumpy.persistence.InMemoryPersister.get_process_checkpoints', props=['C14'], ghost=['T'])
def mem_list_process(self, pid, T=None):
    requires(wf_mem(self))
    modifies()
    raises_nothing()
    ensures('fresh_list', is_list(ret) and fresh(ret))
    ensures('only_its_tags', forall(lambda e: implies(contains(seq(ret), e), attr(e, 'pid') is pid and mem_has(self, pid, attr(e, 'tag')))))
    ensures('all_its_tags', implies(mem_has(self, pid, T), exists(lambda e: contains(seq(ret), e)
                                                                  and attr(e, 'pid') is pid and attr(e, 'tag') is T)))
    loop_modifies(0, contents(cps))
    loop_invariant(0, 'acc', is_list(cps) and fresh(cps))
    loop_invariant(0, 'allocated', forall(lambda e: implies(contains(seq(cps), e), is_ref(e) and allocated(e))))
    loop_invariant(0, 'tags_sound', forall(lambda e: implies(contains(seq(cps), e), attr(e, 'pid') is pid and attr(e, 'tag') in _seen)))
    loop_invariant(0, 'tags_complete', implies(T in _seen, exists(lambda e: contains(seq(cps), e)
                                                                  and attr(e, 'pid') is pid and attr(e, 'tag') is T)))
    replay('only_its_tags', 'persister_history')
    replay('all_its_tags', 'persister_history')


@contract('plumpy.persistence.InMemoryPersister.get_checkpoints', props=['C14'], ghost=['P', 'T'])
def mem_list(self, P=None, T=None):
    requires(wf_mem(self))
    modifies()
    raises_nothing()
    ensures('fresh_list', is_list(ret) and fresh(ret))
    ensures('only_stored_keys', forall(lambda e: implies(contains(seq(ret), e), mem_has(self, attr(e, 'pid'), attr(e, 'tag')))))
    ensures('all_stored_keys', implies(mem_has(self, P, T), exists(lambda e: contains(seq(ret), e)
                                                                 and attr(e, 'pid') is P and attr(e, 'tag') is T)))
    loop_modifies(0, contents(cps))
    loop_invariant(0, 'acc', is_list(cps) and fresh(cps))
    loop_invariant(0, 'sound', forall(lambda e: implies(contains(seq(cps), e), mem_has(self, attr(e, 'pid'), attr(e, 'tag')))))
    loop_invariant(0, 'complete', implies(P in _seen and mem_has(self, P, T), exists(lambda e: contains(seq(cps), e)
                                                                                    and attr(e, 'pid') is P and attr(e, 'tag') is T)))
    replay('only_stored_keys', 'persister_history')
    replay('all_stored_keys', 'persister_history')


@contract('plumpy.persistence.InMemoryPersister.save_checkpoint', props=['C14', 'C08'], ghost=['P', 'T'])
def mem_save(self, process, tag=None, P=None, T=None):
    requires(wf_mem(self) and isinstance(process, Process))
    modifies(all_heap)
    ensures('stored', mem_has(self, process._pid, tag) and type_is(mem_get(self, process._pid, tag), Bundle)
            and fresh(mem_get(self, process._pid, tag)))
    ensures('only_its_key', implies(not (P == old(process._pid) and T == tag), mem_has(self, P, T) == old(mem_has(self, P, T))
                                    and implies(mem_has(self, P, T), mem_get(self, P, T) is old(mem_get(self, P, T)))))
    ensures('invariant', wf_mem(self))
    ensures('snapshot_is_independent', ghost('INDEP', mem_get(self, process._pid, tag)))
    raises(Exception, True)
    replay('stored', 'persister_history')
    replay('only_its_key', 'persister_history')
    replay('snapshot_is_independent', 'persister_snapshot_independent')


@contract('plumpy.persistence.Savable.save', assumed=True, dispatch='static')
def savable_save(self, save_context=None):
    """ASSUMED here (the member machinery is verified under C19): produces a fresh saved-state mapping; the ghost
    LASTSAVED remembers it"""
    modifies()
    ghost_update('LASTSAVED', self, ret)
    ghost_update('SAVECTX', ret, save_context)
    ensures(is_dict(ret) and fresh(ret) and dlen(ret) >= 0 and ghost('LASTSAVED', self) is ret and uf('saved_of', ret) is self)
    ensures(ghost('SAVECTX', ret) is save_context)
    raises(Exception, True)


@spec
def independent_snapshot(b, savable):
    """b holds exactly the entries of a fresh deep copy of what savable.save() produced: no mutable object is shared with
    the live object (copy.deepcopy's assumed contract)"""
    return exists(lambda x: is_ref(x) and uf('copy_src', x) is ghost('LASTSAVED', savable) and x is not ghost('LASTSAVED', savable)
                  and dict_arrays_equal(b, x))


@contract('plumpy.persistence.Bundle.__init__', props=['C14'])
def bundle_init(self, savable, save_context=None, dereference=False):
    requires(type_is(self, Bundle) and dlen(self) == 0 and forall(lambda k: not dhas(self, k)))
    requires(isinstance(savable, Savable))
    modifies(contents(self))
    ghost_update('INDEP', self, independent_snapshot(self, savable))   # history variable, fixed at construction
    ensures('dereferenced_is_independent', implies(truthy(dereference), ghost('INDEP', self)))
    raises(Exception, True)


# ------------------------------------------------------------------------------------------------ the member machinery (C19, C07)
@spec
def is_method(v):
    return is_ref(v) and cls_of(v) is types.MethodType


@spec
def copied(v, x):
    """v is what copy.deepcopy(x) returned (assumed contract of deepcopy: equal, and disjoint from x for mutable x)"""
    return implies(not is_ref(x), v is x) and implies(is_ref(x), is_ref(v) and uf('copy_src', v) is x)


@spec
def saved_member(self, out_state, name, v0):
    """what the saved state records for member `name` whose value was v0:
    a method bound to the object itself -> its name, marked 'm'; a nested Savable -> its own saved state, marked 'S';
    anything else -> a deep copy taken now"""
    return (dhas(out_state, name)
            and implies(is_method(v0), dget(out_state, name) == attr(v0, '__name__') and has_meta_type(out_state, name)
                        and meta_type(out_state, name) == 'm')
            and implies(not is_method(v0) and isinstance(v0, Savable),
                        is_dict(dget(out_state, name)) and uf('saved_of', dget(out_state, name)) is v0 and has_meta_type(out_state, name)
                        and meta_type(out_state, name) == 'S')
            and implies(not is_method(v0) and not isinstance(v0, Savable), copied(dget(out_state, name), v0)))


@contract('plumpy.persistence.Savable.save_members', props=['C19', 'C07', 'C13'], ghost=['M', 'K'])
def save_members(self, members, out_state, save_context=None, M=None, K=None):
    """every declared member is recorded (M: an arbitrary member name), nothing else of the saved state is touched
    (K: an arbitrary other key), and the object itself is not modified"""
    requires(isinstance(self, Savable) and is_dict(out_state) and wf_state(out_state))
    requires(is_set(members) and forall(lambda k: implies(dhas(members, k), is_str(k) and k != '!!meta')))
    # declared members are data attributes of the instance (not names of methods/properties of the class)
    requires(forall(lambda k: implies(dhas(members, k), not class_level_name(self, k))))
    requires(is_str(M) and is_str(K))
    requires(members is not out_state)
    v0 = attr(self, M)
    modifies(contents(out_state), contents(dget(out_state, '!!meta'), when=dhas(out_state, '!!meta')),
             contents(dget(dget(out_state, '!!meta'), 'types'), when=dhas(out_state, '!!meta') and dhas(dget(out_state, '!!meta'), 'types')),
             ghost('LASTSAVED'), ghost('SAVECTX'))
    ensures('member_recorded', implies(dhas(members, M), saved_member(self, out_state, M, v0)))
    # a nested Savable is saved WITH THE CONTEXT OF THIS SAVE (a per-save custom loader identifies the nested classes as well)
    ensures('nested_saved_with_this_context', implies(dhas(members, M) and not is_method(v0) and isinstance(v0, Savable),
                                                      ghost('SAVECTX', dget(out_state, M)) is save_context))
    ensures('other_entries_kept', implies(not dhas(members, K) and K != '!!meta', dhas(out_state, K) == old(dhas(out_state, K))
                                          and dget(out_state, K) is old(dget(out_state, K))))
    ensures('wf', wf_state(out_state))
    raises(TypeError, exists(lambda k: dhas(members, k) and is_method(attr(self, k)) and attr(attr(self, k), '__self__') is not self))
    raises(Exception, exists(lambda k: dhas(members, k) and isinstance(attr(self, k), Savable)))
    loop_modifies(0, contents(out_state), contents(dget(out_state, '!!meta'), when=dhas(out_state, '!!meta')),
                  contents(dget(dget(out_state, '!!meta'), 'types'), when=dhas(out_state, '!!meta') and dhas(dget(out_state, '!!meta'), 'types')),
                  ghost('LASTSAVED'), ghost('SAVECTX'))
    loop_invariant(0, 'wf', wf_state(out_state))
    loop_invariant(0, 'nested_context_so_far', implies(M in _seen and not is_method(v0) and isinstance(v0, Savable),
                                                       ghost('SAVECTX', dget(out_state, M)) is save_context))
    # the metadata dictionaries are the ones that were there, or were made by this very call
    loop_invariant(0, 'meta_origin', implies(dhas(out_state, '!!meta'),
                                             (old(dhas(out_state, '!!meta')) and dget(out_state, '!!meta') is old(dget(out_state, '!!meta')))
                                             or fresh(dget(out_state, '!!meta'))))
    loop_invariant(0, 'types_origin', implies(dhas(out_state, '!!meta') and dhas(dget(out_state, '!!meta'), 'types'),
                                              (old(dhas(out_state, '!!meta') and dhas(dget(out_state, '!!meta'), 'types'))
                                               and dget(dget(out_state, '!!meta'), 'types') is old(dget(dget(out_state, '!!meta'), 'types')))
                                              or fresh(dget(dget(out_state, '!!meta'), 'types'))))
    loop_invariant(0, 'recorded_so_far', implies(M in _seen, saved_member(self, out_state, M, v0)))
    loop_invariant(0, 'others_kept', implies(not dhas(members, K) and K != '!!meta', dhas(out_state, K) == old(dhas(out_state, K))
                                             and dget(out_state, K) is old(dget(out_state, K))))
    replay('member_recorded', 'savable_members')
    replay('nested_saved_with_this_context', 'savable_members')
    replay('loop0.nested_context_so_far.preserved', 'savable_members')
    replay('other_entries_kept', 'savable_members')
    replay('loop0.recorded_so_far.preserved', 'savable_members')
    replay('loop0.others_kept.preserved', 'savable_members')
    replay('loop0.wf.preserved', 'savable_members')


@contract('plumpy.persistence.Savable._get_value', props=['C19', 'C07'])
def _get_value(self, saved_state, name, load_context):
    """inverse of save_members for one member: 'm' -> the method of THIS object with the recorded name, 'S' -> the nested
    Savable recreated from its own saved state with the same load context, otherwise the recorded value itself"""
    requires(isinstance(self, Savable) and is_dict(saved_state) and wf_state(saved_state) and owned_state(saved_state) and is_str(name))
    requires(load_context is None or (isinstance(load_context, LoadSaveContext) and wf_lsc(load_context)))
    requires(implies(has_meta_type(saved_state, name) and meta_type(saved_state, name) == 'S' and dhas(saved_state, name),
                     loadable_state(dget(saved_state, name), load_context)))
    modifies(user_effects)
    typ = old(meta_type(saved_state, name))
    marked = old(has_meta_type(saved_state, name))
    v = old(dget(saved_state, name))
    ghost_update('LOADED', v, ret if (marked and typ == 'S') else old(ghost('LOADED', v)))
    ensures('remembers_only_what_it_loaded', implies(not (marked and typ == 'S'), ghost('LOADED', v) is old(ghost('LOADED', v))))
    ensures('present', old(dhas(saved_state, name)))
    ensures('plain_value', implies(not (marked and (typ == 'm' or typ == 'S')), ret is v))
    ensures('nested_savable', implies(marked and typ == 'S', ret is ghost('LOADED', v)))
    raises(KeyError, not old(dhas(saved_state, name)))
    raises(Exception, marked and (typ == 'm' or typ == 'S'))
    replay('plain_value', 'savable_members')
    replay('nested_savable', 'savable_members')


@contract('plumpy.persistence.LoadSaveContext.__getattr__', props=['C19', 'C07'])
def lsc_getattr(self, item):
    """values given to the context are read back as attributes; anything else is an AttributeError"""
    requires(wf_lsc(self) and is_str(item))
    modifies()
    ensures('reads_the_value', dhas(self._values, item) and ret is dget(self._values, item))
    raises(AttributeError, not dhas(self._values, item))


@contract('plumpy.persistence.Savable._ensure_persist_configured', assumed=True)
def _ensure_persist_configured(self):
    """ASSUMED: the `persist()` hook is the default no-op (classes of the class table do not override it: checked by the scan
    `persist_hook_not_overridden`); the flag is set"""
    modifies(self._persist_configured)
    raises_nothing()
    ensures(self._persist_configured is True)
