# -*- coding: utf-8 -*-
"""Side-car contracts for plumpy.persistence (C19, C07, C14).  Parsed with ast by pyvc; never executed."""
import asyncio
import copy
from plumpy import loaders
from plumpy.loaders import ObjectLoader, DefaultObjectLoader
from plumpy.persistence import (META, META__CLASS_NAME, META__OBJECT_LOADER, META__TYPE__METHOD, META__TYPE__SAVABLE,
                                META__TYPES, META__USER, Bundle, LoadSaveContext, Savable, SavableFuture)

CONFIG = {
    'attr_types': {
        'plumpy.persistence.LoadSaveContext._values': 'dict',
    },
    'user_havoc': 'all',
    'protected_classes': ['plumpy.persistence.LoadSaveContext'],
}


# ------------------------------------------------------------------------------------------------ abstract view of a saved state
@spec
def wf_state(s):
    """shape of a saved-state mapping: a dict whose '!!meta' entry, if any, is a dict with dict-valued 'user'/'types';
    the nesting is a tree (no dict is its own ancestor or sibling)"""
    return (is_dict(s) and dlen(s) >= 0
            and implies(dhas(s, '!!meta'), is_dict(dget(s, '!!meta')) and dget(s, '!!meta') is not s
                        and implies(dhas(dget(s, '!!meta'), 'user'), is_dict(dget(dget(s, '!!meta'), 'user'))
                                    and dget(dget(s, '!!meta'), 'user') is not s
                                    and dget(dget(s, '!!meta'), 'user') is not dget(s, '!!meta'))
                        and implies(dhas(dget(s, '!!meta'), 'types'), is_dict(dget(dget(s, '!!meta'), 'types'))
                                    and dget(dget(s, '!!meta'), 'types') is not s
                                    and dget(dget(s, '!!meta'), 'types') is not dget(s, '!!meta'))
                        and implies(dhas(dget(s, '!!meta'), 'user') and dhas(dget(s, '!!meta'), 'types'),
                                    dget(dget(s, '!!meta'), 'user') is not dget(dget(s, '!!meta'), 'types'))))


@spec
def has_custom_meta(s, name):
    return dhas(s, '!!meta') and dhas(dget(s, '!!meta'), 'user') and dhas(dget(dget(s, '!!meta'), 'user'), name)


@spec
def custom_meta(s, name):
    """user metadata lives in its own namespace '!!meta' / 'user' (it must not collide with class_name / types)"""
    return dget(dget(dget(s, '!!meta'), 'user'), name)


@spec
def has_meta_type(s, name):
    return dhas(s, '!!meta') and dhas(dget(s, '!!meta'), 'types') and dhas(dget(dget(s, '!!meta'), 'types'), name)


@spec
def meta_type(s, name):
    return dget(dget(dget(s, '!!meta'), 'types'), name)


@contract('plumpy.persistence.Savable._get_create_meta', props=['C19'])
def _get_create_meta(out_state):
    requires(wf_state(out_state))
    modifies(contents(out_state))
    raises_nothing()
    ensures('is_meta', dhas(out_state, '!!meta') and result is dget(out_state, '!!meta') and is_dict(result))
    ensures('existing_kept', implies(old(dhas(out_state, '!!meta')), result is old(dget(out_state, '!!meta')) and dict_unchanged(out_state)))
    ensures('created_empty', implies(not old(dhas(out_state, '!!meta')), fresh(result) and dlen(result) == 0
                                     and forall(lambda k: not dhas(result, k))))
    ensures('others_kept', forall(lambda k: implies(k != '!!meta', dhas(out_state, k) == old(dhas(out_state, k))
                                                     and dget(out_state, k) is old(dget(out_state, k)))))


@contract('plumpy.persistence.Savable.set_custom_meta', props=['C19'])
def set_custom_meta(out_state, name, value):
    requires(wf_state(out_state) and is_str(name))
    modifies(all_heap)
    raises_nothing()
    ensures('recorded', has_custom_meta(out_state, name) and custom_meta(out_state, name) is value)
    ensures('wf', wf_state(out_state))
    replay('recorded', 'custom_meta_roundtrip')


@contract('plumpy.persistence.Savable.get_custom_meta', props=['C19'])
def get_custom_meta(saved_state, name):
    requires(wf_state(saved_state) and is_str(name))
    modifies()
    ensures('reads_recorded', has_custom_meta(saved_state, name) and result is custom_meta(saved_state, name))
    raises(ValueError, not has_custom_meta(saved_state, name))
    replay('reads_recorded', 'custom_meta_roundtrip')
    replay('raises_only_declared', 'custom_meta_roundtrip')


@contract('plumpy.persistence.Savable._set_class_name', props=['C19'])
def _set_class_name(out_state, name):
    requires(wf_state(out_state))
    modifies(all_heap)
    raises_nothing()
    ensures('recorded', dhas(out_state, '!!meta') and dhas(dget(out_state, '!!meta'), 'class_name')
            and dget(dget(out_state, '!!meta'), 'class_name') is name)
    ensures('wf', wf_state(out_state))


@contract('plumpy.persistence.Savable._get_class_name', props=['C19'])
def _get_class_name(saved_state):
    requires(wf_state(saved_state))
    modifies(all_heap)
    ensures('reads_recorded', result is dget(dget(saved_state, '!!meta'), 'class_name'))
    raises(KeyError, not (old(dhas(saved_state, '!!meta')) and old(dhas(dget(saved_state, '!!meta'), 'class_name'))))


@contract('plumpy.persistence.Savable._set_meta_type', props=['C19'])
def _set_meta_type(out_state, name, type_spec):
    requires(wf_state(out_state) and is_str(name))
    modifies(all_heap)
    raises_nothing()
    ensures('recorded', has_meta_type(out_state, name) and meta_type(out_state, name) is type_spec)
    ensures('wf', wf_state(out_state))


@contract('plumpy.persistence.Savable._get_meta_type', props=['C19'])
def _get_meta_type(saved_state, name):
    requires(wf_state(saved_state) and is_str(name))
    modifies()
    raises_nothing()
    ensures('reads_recorded', implies(has_meta_type(saved_state, name), result is meta_type(saved_state, name)))
    ensures('absent_is_none', implies(not has_meta_type(saved_state, name), result is None))


# ------------------------------------------------------------------------------------------------ loaders
@contract('plumpy.loaders.get_object_loader', assumed=True, result_class='plumpy.loaders.ObjectLoader')
def get_object_loader():
    """ASSUMED (module global OBJECT_LOADER, lazily a DefaultObjectLoader): the global default loader"""
    modifies()
    raises_nothing()
    ensures(ret is ghost_const('default_loader') and isinstance(ret, ObjectLoader))


@contract('plumpy.loaders.ObjectLoader.load_object', assumed=True, dispatch='static')
def load_object(self, identifier):
    """ASSUMED abstract-method contract (importlib for the default loader): a function of (loader, identifier);
    an identifier that cannot be resolved is a ValueError"""
    modifies()
    ensures(ret is uf('loaded', self, identifier))
    raises(ValueError, True)


@contract('plumpy.loaders.ObjectLoader.identify_object', assumed=True, dispatch='static')
def identify_object(self, obj):
    """ASSUMED abstract-method contract: the identifier loads back to the object with the same loader"""
    modifies()
    ensures(is_str(ret) and uf('loaded', self, ret) is obj)
    raises(ValueError, True)


@spec
def wf_lsc(c):
    """class invariant of LoadSaveContext: the loader is a field, never an entry of the value dictionary"""
    return is_dict(c._values) and dlen(c._values) >= 0 and not dhas(c._values, 'loader') and owned(c._values)


@contract('plumpy.persistence.LoadSaveContext.__init__', props=['C19'])
def lsc_init(self, loader=None, **kwargs):
    modifies(fields(self))
    raises_nothing()
    ghost_update('OWN', self._values, True)   # the value dictionary is private to the context object
    ensures('payload', self.loader is loader and is_dict(self._values) and fresh(self._values) and same_dict(self._values, kwargs))
    ensures('invariant', wf_lsc(self))


@contract('plumpy.persistence.LoadSaveContext.copyextend', props=['C19'])
def copyextend(self, **kwargs):
    requires(wf_lsc(self))
    modifies()
    raises_nothing()
    ensures('fresh_copy', type_is(ret, LoadSaveContext) and fresh(ret) and is_dict(ret._values) and fresh(ret._values))
    ensures('loader', ret.loader is (dget(kwargs, 'loader') if dhas(kwargs, 'loader') else self.loader))
    ensures('values', forall(lambda k: implies(k != 'loader',
                                               dhas(ret._values, k) == (dhas(kwargs, k) or dhas(self._values, k))
                                               and implies(dhas(kwargs, k), dget(ret._values, k) is dget(kwargs, k))
                                               and implies(not dhas(kwargs, k) and dhas(self._values, k), dget(ret._values, k) is dget(self._values, k)))))
    ensures('invariant', wf_lsc(ret))


@contract('plumpy.persistence._ensure_object_loader', props=['C19'])
def _ensure_object_loader(context, saved_state):
    """loader precedence: the context's, else the one recorded in the saved state, else the global default"""
    requires(context is None or (isinstance(context, LoadSaveContext) and wf_lsc(context)))
    requires(wf_state(saved_state))
    # the class recorded in a saved state is a user-defined loader class (an object of the heap, not one of the classes
    # of the class table): instantiating it is a call into user code
    requires(implies(has_custom_meta(saved_state, 'object_loader'),
                     is_heap_obj(uf('loaded', ghost_const('default_loader'), custom_meta(saved_state, 'object_loader')))
                     and not is_function(uf('loaded', ghost_const('default_loader'), custom_meta(saved_state, 'object_loader')))))
    modifies(all_heap)
    has_ctx = context is not None and old(context.loader) is not None
    recorded = old(has_custom_meta(saved_state, 'object_loader'))
    ensures('context_first', implies(has_ctx, ret is context and ret.loader is old(context.loader)))
    ensures('recorded_second', implies(not has_ctx and recorded,
                                       len(calls()) == old(len(calls())) + 1
                                       and calls()[len(calls()) - 1].fn is uf('loaded', ghost_const('default_loader'), old(custom_meta(saved_state, 'object_loader')))
                                       and len(seq(calls()[len(calls()) - 1].args)) == 0
                                       and ret.loader is attr(calls()[len(calls()) - 1], 'result')))
    ensures('default_last', implies(not has_ctx and not recorded, ret.loader is ghost_const('default_loader')))
    ensures('is_context', isinstance(ret, LoadSaveContext) and ret.loader is not None or has_ctx or recorded)
    raises(ValueError, True)
    raises(Exception, not has_ctx and recorded)
