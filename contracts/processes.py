# -*- coding: utf-8 -*-
"""Side-car contracts for plumpy.processes (C01-C06, C12, C18).  Parsed with ast by pyvc; never executed."""
import asyncio
from plumpy.base.state_machine import StateEntryFailed, StateEventHook, StateMachine
from plumpy.process_states import (Created, Excepted, Finished, Killed, KillInterruption, PauseInterruption, ProcessState, Running,
                                   Waiting)
from plumpy.futures import CancellableAction
from plumpy.processes import Process
from plumpy import exceptions
import plumpy.process_states
import plumpy.lang
import plumpy.workchains

CONFIG = {
    'attr_types': {
        'plumpy.processes.Process._cleanups': 'None|list',
        'plumpy.processes.Process._pausing': 'None|plumpy.futures.CancellableAction',
        'plumpy.processes.Process._killing': 'None|plumpy.futures.CancellableAction',
        'plumpy.processes.Process._interrupt_action': 'None|plumpy.futures.CancellableAction',
        'plumpy.processes.Process._paused': 'None|plumpy.persistence.SavableFuture',
        'plumpy.processes.Process._future': 'plumpy.persistence.SavableFuture',
        'plumpy.process_states.Excepted.exception': 'None|BaseException',
        'plumpy.processes.Process._event_helper': 'plumpy.event_helper.EventHelper',
        'plumpy.event_helper.EventHelper._listeners': 'set',
        'plumpy.processes.Process._event_callbacks': 'dict',
    },
    'class_invariants': {'plumpy.event_helper.EventHelper': 'wf_event_helper'},
    'user_havoc': 'all',
    'protected_classes': ['plumpy.base.state_machine.State', 'plumpy.base.state_machine.StateMachine',
                          'plumpy.process_states.Command', 'plumpy.event_helper.EventHelper'],
}


@spec
def wf_event_helper(h):
    """class invariant of EventHelper: the listeners are kept in a private set"""
    return is_set(h._listeners) and dlen(h._listeners) >= 0


@spec
def wf_cleanups(p):
    """the cleanup list is private to the process (only add_cleanup appends to it)"""
    return p._cleanups is None or (is_list(p._cleanups) and owned(p._cleanups))


@contract('plumpy.processes.Process.on_close', props=['C02', 'C01', 'C16'])
def on_close(self):
    requires(wf_cleanups(self))
    n0 = len(calls())
    cl = seq(self._cleanups)
    modifies(user_effects, self._cleanups, self._event_callbacks, self._closed)
    raises_nothing()
    ensures('closed', self._closed is True and self._cleanups is None)
    ensures('callbacks_dropped', is_dict(self._event_callbacks) and dlen(self._event_callbacks) == 0 and fresh(self._event_callbacks))
    ensures('each_cleanup_once', implies(old(self._cleanups) is not None, len(calls()) == n0 + len(cl)))
    ensures('no_cleanups_no_calls', implies(old(self._cleanups) is None, calls() == old(calls())))
    loop_invariant(0, 'count', len(calls()) == n0 + _i and self._cleanups is old(self._cleanups) and wf_cleanups(self))
    loop_modifies(0, user_effects)
    replay('each_cleanup_once', 'cleanups_once')
    replay('raises_nothing', 'cleanups_once')
    replay('closed', 'cleanups_once')


@contract('plumpy.processes.Process.close', props=['C02', 'C16'])
def close(self):
    requires(wf_cleanups(self))
    modifies(user_effects, self._cleanups, self._event_callbacks, self._closed)
    raises_nothing()
    ensures('closed', truthy(self._closed))
    ensures('idempotent', implies(old(truthy(self._closed)), calls() == old(calls()) and self._cleanups is old(self._cleanups)))
    ensures('cleanups_dropped', implies(not old(truthy(self._closed)), self._cleanups is None))


@contract('plumpy.processes.Process.on_terminated', props=['C02'])
def on_terminated(self):
    requires(wf_cleanups(self))
    requires(self._paused is None or isinstance(self._paused, asyncio.Future))
    pf = self._paused
    modifies(user_effects, self._cleanups, self._event_callbacks, self._closed, self._paused, attr(self._paused, '_state'), attr(self._paused, '_result'))
    raises_nothing()
    ensures('closed', truthy(self._closed))
    # a stepping task that still sleeps on the pause is released (step_until_terminated() returns): the pause future is resolved
    # and dropped -- there is nothing left to play
    ensures('nothing_left_to_play', self._paused is None)
    call_requires('plumpy.processes.Process.close', 'pause_released_before_closing',
                  self._paused is None and implies(pf is not None, pf._state != 'PENDING'))
    replay('nothing_left_to_play', 'control_histories')
    replay('pause_released_before_closing', 'control_histories')


@contract('plumpy.processes.Process.has_terminated', props=['C01'])
def has_terminated(self):
    requires(concrete_state(self._state))
    modifies()
    raises_nothing()
    ensures('is_terminal_label', ret is terminal_label(self._state.LABEL))


# ------------------------------------------------------------------------------------------------ control calls (C01 / C04 / C05)
@spec
def wf_proc(p):
    """standing invariant of a process outside of transitions"""
    return (concrete_state(p._state) and p._state.state_machine is p and wf_cleanups(p)
            and p._transitioning is False and p._transition_failing is False
            and (p._stepping is True or p._stepping is False))


@contract('plumpy.processes.Process.kill', props=['C01', 'C04'])
def kill(self, msg_text=None):
    requires(wf_proc(self) and not isinstance(self, plumpy.workchains.WorkChain))
    modifies(user_effects, self._state, self._transitioning, self._transition_failing, self._killing, self._interrupt_action,
             self._cleanups, self._event_callbacks, self._closed)
    ensures('terminal_is_final', implies(old(terminal_label(self._state.LABEL)), self._state is old(self._state)
                                         and ret is (old(self._state.LABEL) is ProcessState.KILLED)))
    ensures('idle_kill_is_immediate', implies(not old(terminal_label(self._state.LABEL)) and not old(truthy(self._killing))
                                              and old(self._stepping) is False,
                                              ret is True and type_is(self._state, Killed) and self._state.state_machine is self))
    ensures('moves_along_the_graph', self._state is old(self._state) or legal(old(self._state.LABEL), self._state.LABEL))
    raises(Exception, old(self._stepping) is True)


@contract('plumpy.processes.Process.fail', props=['C01'])
def fail(self, exception, trace_back):
    requires(wf_proc(self) and not isinstance(self, plumpy.workchains.WorkChain))
    modifies(user_effects, self._state, self._transitioning, self._transition_failing, self._cleanups, self._event_callbacks, self._closed)
    ensures('terminal_is_final', implies(old(terminal_label(self._state.LABEL)), self._state is old(self._state)))
    known('transition_to::legal_request', 'KF-C01-fail-after-termination', terminal_label(self._state.LABEL))
    known('terminal_is_final', 'KF-C01-fail-after-termination', old(terminal_label(self._state.LABEL)))
    replay('transition_to::legal_request', 'fail_after_termination')
    ensures('live_process_excepts', implies(not old(terminal_label(self._state.LABEL)), type_is(self._state, Excepted)
                                            and self._state.exception is exception))
    raises(Exception, old(terminal_label(self._state.LABEL)))
    replay('terminal_is_final', 'fail_after_termination')


@contract('plumpy.processes.Process.callback_excepted', props=['C01', 'C03'])
def callback_excepted(self, _callback, exception, trace):
    requires(wf_proc(self) and not isinstance(self, plumpy.workchains.WorkChain))
    modifies(user_effects, self._state, self._transitioning, self._transition_failing, self._cleanups, self._event_callbacks, self._closed)
    ensures('terminal_is_final', implies(old(terminal_label(self._state.LABEL)), self._state is old(self._state)))
    raises(Exception, old(terminal_label(self._state.LABEL)))
    replay('terminal_is_final', 'late_callback_failure')


@contract('plumpy.processes.Process.resume', props=['C01', 'C06', 'C13'])
def resume(self, *args):
    """resume(v) hands exactly v (also None) to the waiting state, resume() hands nothing (the NULL marker); the first resume of a
    waiting step is recorded, later ones change nothing"""
    requires(wf_proc(self) and not isinstance(self, plumpy.workchains.WorkChain))
    requires(implies(isinstance(self._state, Waiting), isinstance(self._state._waiting_future, asyncio.Future)
                     and wf_future(self._state._waiting_future)))
    requires(len(seq(args)) <= 1)
    wf = self._state._waiting_future
    given = seq(args)
    modifies(user_effects, attr(self._state._waiting_future, '_state'), attr(self._state._waiting_future, '_result'))
    ensures('state_kept', self._state is old(self._state))
    ensures('value_handed_over_as_given', implies(type_is(self._state, Waiting) and old(wf._state) == 'PENDING',
                                                  wf._state == 'FINISHED' and wf._exception is None
                                                  and wf._result is (given[0] if len(given) == 1 else plumpy.lang.NULL)))
    raises(Exception, self._state is old(self._state))
    replay('value_handed_over_as_given', 'process_resume_values')
    replay('state_kept', 'process_resume_values')


@contract('plumpy.processes.Process.play', props=['C01', 'C05'])
def play(self):
    requires(wf_proc(self) and not isinstance(self, plumpy.workchains.WorkChain))
    modifies(user_effects, self._paused, self._pausing, self._interrupt_action, self._status, self._pre_paused_status)
    ensures('state_kept', self._state is old(self._state))
    ensures('returns_true', ret is True)
    raises(Exception, self._state is old(self._state))


@contract('plumpy.event_helper.EventHelper.fire_event', props=['C03'])
def fire_event(self, event_function, *args, **kwargs):
    """listeners are user code: whatever they do or raise (any Exception) is logged and swallowed"""
    requires(wf_event_helper(self))
    requires(event_function is None or (is_ref(event_function) and is_str(attr(event_function, '__name__'))))
    modifies(user_effects)
    raises(ValueError, event_function is None)
    loop_invariant(0, 'nothing_to_maintain', True)
    loop_modifies(0, user_effects)


@contract('plumpy.processes.Process._do_pause', props=['C01', 'C05'])
def _do_pause(self, state_msg, next_state=None):
    requires(wf_proc(self) and not isinstance(self, plumpy.workchains.WorkChain))
    requires(next_state is None or (concrete_state(next_state) and legal(self._state.LABEL, next_state.LABEL)))
    requires(state_msg is None or is_dict(state_msg))
    modifies(user_effects, self._state, self._transitioning, self._transition_failing, self._cleanups, self._event_callbacks, self._closed,
             self._pausing, self._paused, self._status, self._pre_paused_status)
    ensures('transitions_first', implies(next_state is not None, legal(old(self._state.LABEL), self._state.LABEL)))
    ensures('no_state_change_without_next', implies(next_state is None, self._state is old(self._state)))
    ensures('paused', ret is True and self._paused is not None and self._pausing is None)
    raises(KeyError, state_msg is not None and implies(next_state is None, not old(dhas(state_msg, 'message'))) and self._pausing is None)


@contract('plumpy.processes.Process.pause', props=['C01', 'C05'])
def pause(self, msg_text=None):
    requires(wf_proc(self) and not isinstance(self, plumpy.workchains.WorkChain))
    modifies(user_effects, self._pausing, self._paused, self._status, self._pre_paused_status, self._interrupt_action)
    ensures('state_kept', self._state is old(self._state))
    ensures('terminated_refuses', implies(old(terminal_label(self._state.LABEL)), ret is False and self._paused is old(self._paused)))
    ensures('idle_pause_is_immediate', implies(not old(terminal_label(self._state.LABEL)) and old(self._paused) is None
                                               and old(self._pausing) is None and old(self._stepping) is False,
                                               ret is True and self._paused is not None))
    raises(Exception, old(self._stepping) is True and self._state is old(self._state))


# ------------------------------------------------------------------------------------------------ outcome reports (C02)
from plumpy.exceptions import InvalidStateError, KilledError


@spec
def wf_future_of(p):
    return isinstance(p._future, asyncio.Future)


@contract('plumpy.processes.Process.on_finish', props=['C02', 'C12'])
def on_finish(self, result, successful):
    """entering FINISHED: the future resolves to the outputs object; invalid outputs downgrade to unsuccessful"""
    requires(wf_future_of(self) and self._future._state == 'PENDING' and is_bool(successful))
    modifies(user_effects, self._future._state, self._future._result)
    ensures('future_resolves_to_outputs', self._future._state == 'FINISHED' and self._future._result is self._outputs
            and self._future._exception is None)
    raises(StateEntryFailed, truthy(successful) and type_is(exc.state, Finished) and exc.state.successful is False
           and exc.state.result is result and exc.state.state_machine is self)
    raises(Exception, truthy(successful))


@contract('plumpy.processes.Process.on_except', props=['C02'])
def on_except(self, exc_info):
    requires(wf_future_of(self) and is_tuple(exc_info) and len(seq(exc_info)) == 3 and is_ref(seq(exc_info)[1]))
    modifies(self._future, attr(seq(exc_info)[1], '__traceback__'), self._future._state, self._future._exception)
    raises_nothing()
    ensures('future_raises_the_exception', self._future._state == 'FINISHED' and self._future._exception is seq(exc_info)[1])
    ensures('replaces_a_resolved_future', implies(old(self._future._state) != 'PENDING', fresh(self._future)))


@contract('plumpy.processes.Process.on_kill', props=['C02', 'C04'])
def on_kill(self, msg):
    requires(wf_future_of(self) and self._future._state == 'PENDING' and (msg is None or is_dict(msg)))
    modifies(self._status, self._future._state, self._future._exception)
    ensures('future_raises_killed_error', self._future._state == 'FINISHED' and type_is(self._future._exception, KilledError)
            and fresh(self._future._exception))
    ensures('kill_text_recorded', seq(attr(self._future._exception, 'args')) == [self._status]
            and implies(msg is not None and dhas(msg, 'message') and truthy(dget(msg, 'message')), self._status is dget(msg, 'message')))
    raises(KeyError, msg is not None and not dhas(msg, 'message'))


@contract('plumpy.processes.Process.result', props=['C02'])
def process_result(self):
    requires(concrete_state(self._state))
    modifies()
    ensures('finished_gives_result', type_is(self._state, Finished) and ret is self._state.result)
    raises(KilledError, type_is(self._state, Killed) and fresh(exc) and seq(attr(exc, 'args')) == [self._state.msg])
    raises(BaseException, type_is(self._state, Excepted) and (exc is self._state.exception or self._state.exception is None
                                                                or not truthy(self._state.exception)))
    raises(InvalidStateError, not terminal_label(self._state.LABEL))


@contract('plumpy.processes.Process.successful', props=['C02'])
def process_successful(self):
    requires(concrete_state(self._state))
    modifies()
    ensures('finished_gives_flag', type_is(self._state, Finished) and ret is self._state.successful)
    raises(InvalidStateError, not type_is(self._state, Finished))


@contract('plumpy.processes.Process.killed_msg', props=['C02'])
def killed_msg(self):
    requires(concrete_state(self._state))
    modifies()
    ensures('killed_gives_message', type_is(self._state, Killed) and ret is self._state.msg)
    raises(InvalidStateError, not type_is(self._state, Killed))


@contract('plumpy.processes.Process.exception', props=['C02'])
def process_exception(self):
    requires(concrete_state(self._state))
    modifies()
    raises_nothing()
    ensures('excepted_gives_exception', ret is (self._state.exception if type_is(self._state, Excepted) else None))


# ------------------------------------------------------------------------------------------------ the spec (assumed here, C11/C12)
from plumpy.process_spec import ProcessSpec
from plumpy.ports import PortNamespace, PortValidationError


@contract('plumpy.processes.Process.spec', assumed=True, result_class='plumpy.process_spec.ProcessSpec')
def process_spec(cls):
    """ASSUMED (class-level cache built by define(), reflection): the process class's specification object"""
    modifies()
    raises_nothing()
    ensures(ret is uf('spec_of', cls))


@contract('plumpy.process_spec.ProcessSpec.outputs', assumed=True, result_class='plumpy.ports.PortNamespace')
def spec_outputs(self):
    """ASSUMED: the `outputs` namespace of the spec's port tree (a fixed child of the root namespace)"""
    modifies()
    raises_nothing()
    ensures(ret is uf('outputs_ns', self))


@contract('plumpy.process_spec.ProcessSpec.inputs', assumed=True, result_class='plumpy.ports.PortNamespace')
def spec_inputs(self):
    modifies()
    raises_nothing()
    ensures(ret is uf('inputs_ns', self))


# ------------------------------------------------------------------------------------------------ interrupt actions (C04, C05)
@contract('plumpy.processes.Process._set_interrupt_action', props=['C04', 'C05'])
def _set_interrupt_action(self, new_action):
    """installing an action CANCELS the one that was pending (this is what lets a later pause replace an earlier kill: known
    finding KF-C04-kill-replaced-by-other-request) and nothing else changes"""
    requires(isinstance(self, Process))
    requires(self._interrupt_action is None or isinstance(self._interrupt_action, CancellableAction))
    prev = self._interrupt_action
    modifies(self._interrupt_action, attr(self._interrupt_action, '_state'))
    raises_nothing()
    ensures('installed', self._interrupt_action is new_action)
    ensures('previous_one_cancelled', implies(prev is not None and prev is not new_action and old(prev._state) == 'PENDING', prev._state == 'CANCELLED'))
    ensures('finished_actions_keep_their_outcome', implies(prev is not None and old(prev._state) != 'PENDING', prev._state is old(prev._state)))
    replay('installed', 'control_histories')


@contract('plumpy.processes.Process._create_interrupt_action', props=['C04', 'C05'])
def _create_interrupt_action(self, exception):
    """the action for an interruption: a fresh pending run-once action whose cookie is that very interruption; a pause
    interruption pauses with its message, a kill interruption kills; anything else is refused"""
    requires(isinstance(self, Process))
    modifies()
    ensures('fresh_pending_action', type_is(ret, CancellableAction) and fresh(ret) and ret._state == 'PENDING' and ret._cookie is exception)
    ensures('only_pause_or_kill', isinstance(exception, PauseInterruption) or isinstance(exception, KillInterruption))
    raises(ValueError, not (isinstance(exception, PauseInterruption) or isinstance(exception, KillInterruption)))
    replay('fresh_pending_action', 'control_histories')


# ------------------------------------------------------------------------------------------------ the process's own checkpoint (C07, C08)
@contract('plumpy.processes.Process.save_instance_state', props=['C07', 'C08'], ghost=['M', 'K'])
def process_save(self, out_state, save_context, M=None, K=None):
    """a process's checkpoint: every declared member (M: any of them), the state through its own save(), the raw and the parsed
    inputs exactly when they exist (None is not recorded, an EMPTY mapping is), the outputs when there are any -- each as a copy"""
    requires(M == '_pid' or M == '_creation_time' or M == '_future' or M == '_paused' or M == '_status' or M == '_pre_paused_status'
             or M == '_event_helper')
    requires(K == '_state' or K == 'INPUTS_RAW' or K == 'INPUTS_PARSED' or K == 'OUTPUTS')
    requires(type_is(self, Process) and is_dict(out_state) and wf_state(out_state))
    requires(not dhas(out_state, '_state') and not dhas(out_state, 'INPUTS_RAW') and not dhas(out_state, 'INPUTS_PARSED') and not dhas(out_state, 'OUTPUTS'))
    requires(isinstance(self._state, plumpy.process_states.State) and is_dict(self._outputs))
    raw = self._raw_inputs
    parsed = self._parsed_inputs
    outs = self._outputs
    state = self._state
    modifies(contents(out_state), contents(dget(out_state, '!!meta'), when=dhas(out_state, '!!meta')),
             contents(dget(dget(out_state, '!!meta'), 'types'), when=dhas(out_state, '!!meta') and dhas(dget(out_state, '!!meta'), 'types')),
             ghost('LASTSAVED'), self._persist_configured)
    ensures('members_recorded', saved_member(self, out_state, M, attr(self, M)))
    # (K ranges over the four keys: each clause is proved for the instance of the member machinery's frame it needs)
    ensures('state_recorded_through_its_own_save', dhas(out_state, '_state') and uf('saved_of', dget(out_state, '_state')) is state)
    ensures('raw_inputs_recorded_iff_they_exist', implies(K == 'INPUTS_RAW', dhas(out_state, 'INPUTS_RAW') == (raw is not None)
                                                         and implies(raw is not None, copied(dget(out_state, 'INPUTS_RAW'), raw))))
    ensures('parsed_inputs_recorded_iff_they_exist', implies(K == 'INPUTS_PARSED', dhas(out_state, 'INPUTS_PARSED') == (parsed is not None)
                                                            and implies(parsed is not None, copied(dget(out_state, 'INPUTS_PARSED'), parsed))))
    ensures('outputs_recorded_when_there_are_any', implies(K == 'OUTPUTS', dhas(out_state, 'OUTPUTS') == (dlen(outs) > 0)
                                                          and implies(dlen(outs) > 0, copied(dget(out_state, 'OUTPUTS'), outs))))
    raises(Exception, True)
    replay('members_recorded', 'bundle_roundtrip')
    replay('state_recorded_through_its_own_save', 'bundle_roundtrip')
    replay('raw_inputs_recorded_iff_they_exist', 'bundle_roundtrip')
    replay('parsed_inputs_recorded_iff_they_exist', 'bundle_roundtrip')
    replay('outputs_recorded_when_there_are_any', 'bundle_roundtrip')


@contract('plumpy.processes.Process.transition_failed', props=['C03', 'C01'])
def transition_failed(self, initial_state, final_state, exception, trace):
    """a transition that raised: while the process is being created the exception goes to the caller of the constructor;
    otherwise the process is sent to a fresh EXCEPTED state carrying exactly that exception"""
    requires(wf_proc(self) and not isinstance(self, plumpy.workchains.WorkChain) and isinstance(exception, BaseException))
    requires(self._state is None or not terminal_label(self._state.LABEL))
    modifies(user_effects, self._state, self._transitioning, self._transition_failing, self._cleanups, self._event_callbacks, self._closed)
    ensures('not_while_creating', final_state is not ProcessState.CREATED)
    ensures('sent_to_excepted_with_that_exception', type_is(self._state, Excepted) and fresh(self._state) and self._state.exception is exception)
    raises(BaseException, implies(final_state is ProcessState.CREATED, exc is exception))      # otherwise: a hook of the EXCEPTED transition failed
    replay('sent_to_excepted_with_that_exception', 'failure_injection')
    replay('raises_only_declared', 'failure_injection')
