# -*- coding: utf-8 -*-
"""Side-car contracts for plumpy.base.state_machine (C01, C02, C03).  Parsed with ast by pyvc; never executed."""
from plumpy.base.state_machine import (InvalidStateError, State, StateEntryFailed, StateEventHook, StateMachine)
from plumpy.process_states import (Created, Excepted, Finished, Killed, ProcessState, Running, Waiting)
from plumpy.processes import Process
import plumpy.process_states
import plumpy.workchains

CONFIG = {
    'attr_types': {
        'plumpy.base.state_machine.StateMachine._state': 'None|plumpy.process_states.State',
    },
    'user_havoc': 'all',
    'protected_classes': ['plumpy.base.state_machine.State', 'plumpy.base.state_machine.StateMachine',
                          'plumpy.process_states.Command'],
}


@spec
def lab(s):
    """label of a state object (None for no state)"""
    return None if s is None else s.LABEL


@spec
def legal(a, b):
    """DESIGN D.1: the documented lifecycle graph, written from the property statement"""
    return ((a is None and b is ProcessState.CREATED)
            or (a is ProcessState.CREATED and (b is ProcessState.RUNNING or b is ProcessState.KILLED or b is ProcessState.EXCEPTED))
            or ((a is ProcessState.RUNNING or a is ProcessState.WAITING)
                and (b is ProcessState.RUNNING or b is ProcessState.WAITING or b is ProcessState.FINISHED
                     or b is ProcessState.KILLED or b is ProcessState.EXCEPTED)))


@spec
def concrete_state(s):
    """s is an instance of one of the concrete process state classes (the closed class table)"""
    return (type_is(s, Created) or type_is(s, Running) or type_is(s, Waiting) or type_is(s, plumpy.workchains.Waiting)
            or type_is(s, Finished) or type_is(s, Excepted) or type_is(s, Killed))


@spec
def terminal_label(a):
    return a is ProcessState.FINISHED or a is ProcessState.EXCEPTED or a is ProcessState.KILLED


@contract('plumpy.base.state_machine.StateMachine.initial_state_label', assumed=True)
def initial_state_label(cls):
    """ASSUMED (class-level lazy table, see get_states_map): the first state of a process is CREATED"""
    modifies()
    raises_nothing()
    ensures(ret is ProcessState.CREATED)


@contract('plumpy.base.state_machine.StateMachine._fire_state_event', assumed=True)
def _fire_state_event(self, hook, state):
    """ASSUMED for C01 (the property's own quantifier: lifecycle hooks and registered callbacks neither raise nor issue
    control requests): the callbacks are user code that leaves the machine's and the states' fields alone.  The one
    exception raised by plumpy's own hook chain is StateEntryFailed from on_finish when the outputs are invalid; it
    re-routes to an unsuccessful FINISHED state."""
    modifies(user_effects)
    raises(StateEntryFailed, hook is StateEventHook.ENTERING_STATE and isinstance(state, Finished) and truthy(state.successful)
           and type_is(exc.state, Finished) and exc.state.state_machine is self and exc.state.successful is False)


@contract('plumpy.base.state_machine.State.do_enter', assumed=True, dispatch='static')
def do_enter(self):
    """ASSUMED for C01: enter hooks of states are quiet (workchains.Waiting.enter registers done-callbacks: C10)"""
    modifies(user_effects)
    raises_nothing()


@contract('plumpy.base.state_machine.State.do_exit', dispatch='static', props=['C01'])
def do_exit(self):
    requires(type_is(self, Created) or type_is(self, Running) or type_is(self, Waiting) or type_is(self, plumpy.workchains.Waiting)
             or type_is(self, Finished) or type_is(self, Excepted) or type_is(self, Killed))
    modifies(user_effects, self.in_state)
    ensures('live_states_can_be_left', not terminal_label(self.LABEL))
    raises(InvalidStateError, terminal_label(self.LABEL))


@contract('plumpy.base.state_machine.StateMachine._exit_current_state', props=['C01'])
def _exit_current_state(self, next_state):
    requires(isinstance(self, Process) and concrete_state(next_state))
    requires(self._state is None or concrete_state(self._state))
    modifies(user_effects)
    ensures('exit_only_along_the_graph', legal(old(lab(self._state)), next_state.LABEL))
    ensures('state_object_unchanged', self._state is old(self._state))
    raises(RuntimeError, not legal(old(lab(self._state)), next_state.LABEL) and self._state is old(self._state))
    raises(InvalidStateError, False)


@contract('plumpy.base.state_machine.StateMachine._enter_next_state', props=['C01'])
def _enter_next_state(self, next_state):
    requires(isinstance(self, Process) and isinstance(next_state, plumpy.process_states.State))
    modifies(user_effects, self._state)
    ensures('entered', self._state is next_state)
    raises(StateEntryFailed, isinstance(next_state, Finished) and truthy(next_state.successful) and type_is(exc.state, Finished)
           and exc.state.successful is False and self._state is old(self._state))


@contract('plumpy.base.state_machine.StateMachine.transition_to', props=['C01'])
def transition_to(self, new_state, **kwargs):
    """Under C01's quantifier (quiet hooks) and a request that is legal from the current state, the machine ends in the
    requested state, or in the unsuccessful FINISHED state plumpy's own on_finish re-routes to."""
    requires(isinstance(self, Process) and wf_cleanups(self))
    requires(new_state is None or concrete_state(new_state))
    requires(self._state is None or concrete_state(self._state))
    requires(self._transitioning is False and self._transition_failing is False)
    requires('legal_request', new_state is None or legal(lab(self._state), new_state.LABEL))
    modifies(user_effects, self._state, self._transitioning, self._transition_failing)
    raises_nothing()
    ensures('none_is_a_no_op', implies(new_state is None, self._state is old(self._state)))
    ensures('moves_along_the_graph', implies(new_state is not None, legal(old(lab(self._state)), lab(self._state))
                                             and (self._state is new_state
                                                  or (isinstance(new_state, Finished) and type_is(self._state, Finished)))))
    ensures('not_half_transitioned', self._transitioning is False and self._transition_failing is False)
