# -*- coding: utf-8 -*-
"""Side-car contracts for the process scope (C18).  Parsed with ast by pyvc; never executed."""
from plumpy.processes import PROCESS_STACK, Process

CONFIG = {
    'user_havoc': 'all',
    # code run inside a scope does not write the context variable of ITS OWN task behind plumpy's back (A-PRIV); other
    # tasks have their own context (asyncio, trusted)
    'protected_classes': ['contextvars.ContextVar', 'plumpy.base.state_machine.StateMachine'],
    'user_call_snapshot': "seq(attr(PROCESS_STACK, '_value'))",
    # the list object that was the stack when the unit was entered, as it is at the moment of the call
    'user_call_snapshot2': "seq(old(attr(PROCESS_STACK, '_value')))",
    # the awaited callee may be cancelled / interrupted: BaseException-only exceptions can come out of the await
    'user_await_interruptible': True,
}


@spec
def stack():
    return seq(attr(PROCESS_STACK, '_value'))


@spec
def wf_stack():
    return is_list(attr(PROCESS_STACK, '_value')) and owned(attr(PROCESS_STACK, '_value'))


@contract('plumpy.processes.Process.current', props=['C18'])
def current(cls):
    requires(wf_stack())
    modifies()
    raises_nothing()
    ensures('top_of_stack', ret is (stack()[len(stack()) - 1] if len(stack()) > 0 else None))
    replay('top_of_stack', 'process_scope')


@contract('plumpy.processes.Process._run_task', props=['C18'])
def _run_task(self, callback, *args, **kwargs):
    """runs the callee entirely inside the scope of this process: while it executes the stack is old ++ [self] (so
    Process.current() is self); afterwards -- also when it raises -- the previous stack is back; the list object that was
    current before (possibly the shared default) is never mutated"""
    requires(wf_stack() and is_heap_obj(callback))
    s0 = stack()
    l0 = attr(PROCESS_STACK, '_value')
    modifies(user_effects, attr(PROCESS_STACK, '_value'))
    ev = calls()[len(calls()) - 1]
    ensures('one_call', len(calls()) == old(len(calls())) + 1)
    ensures('returned_means_no_failure', attr(ev, 'raised') is None)
    ensures('calls_the_callback', wraps(ev.fn, callback) and seq(ev.args) == seq(args))
    ensures('hands_back_its_result', ret is (attr(ev, 'awaited') if attr(ev, 'was_awaited') else attr(ev, 'result')))
    ensures('scope_during_call', seq(attr(ev, 'snapshot')) == s0 + [self])
    ensures('previous_list_untouched_during_call', seq(attr(ev, 'snapshot2')) == s0)
    ensures('scope_restored', stack() == s0 and wf_stack())
    ensures('previous_list_untouched', list_unchanged(l0))
    raises(BaseException, stack() == s0 and wf_stack() and list_unchanged(l0)
           and (len(calls()) == old(len(calls())) or (seq(attr(calls()[len(calls()) - 1], 'snapshot')) == s0 + [self]
                                                      and seq(attr(calls()[len(calls()) - 1], 'snapshot2')) == s0
                                                      and len(calls()) == old(len(calls())) + 1
                                                      and wraps(calls()[len(calls()) - 1].fn, callback)
                                                      # what the callee raised is what comes out (None: the await was aborted)
                                                      and (attr(calls()[len(calls()) - 1], 'raised') is None
                                                           or attr(calls()[len(calls()) - 1], 'raised') is exc))))
    replay('scope_during_call', 'process_scope')
    replay('previous_list_untouched_during_call', 'process_scope')
    replay('scope_restored', 'process_scope')
    replay('previous_list_untouched', 'process_scope')
    replay('raises_only_declared', 'process_scope')
