# -*- coding: utf-8 -*-
"""Side-car contracts for the message entry points of plumpy.processes.Process (C16).  Parsed with ast by pyvc; never executed.

`_schedule_rpc` hands a call to the process's event loop and gives back the reply future; here it is an ASSUMED contract that
records WHAT was scheduled (ghosts RPCFN / RPCARGS / RPCKW keyed by the reply future) -- that the scheduled call runs exactly
once and the reply is its (flattened) outcome is covered by the bounded search `remote_equals_direct`."""
import kiwipy
import plumpy.process_states
from plumpy.processes import Process

CONFIG = {
    'user_havoc': 'all',
    'foreign_shortcut': True,
    'protected_classes': ['plumpy.base.state_machine.StateMachine', 'plumpy.base.state_machine.State'],
    'ghost_arrays': {'RPCFN': 'val', 'RPCARGS': 'val', 'RPCKW': 'val'},
}


@contract('plumpy.processes.Process._schedule_rpc', assumed=True)
def _schedule_rpc(self, callback, *args, **kwargs):
    """ASSUMED: nothing runs now; the reply future stands for callback(*args, **kwargs) run later on the process's loop"""
    modifies()
    raises_nothing()
    ghost_update('RPCFN', ret, callback)
    ghost_update('RPCARGS', ret, args)
    ghost_update('RPCKW', ret, kwargs)
    ensures(isinstance(ret, kiwipy.Future) and fresh(ret) and ghost('RPCFN', ret) is callback
            and seq(ghost('RPCARGS', ret)) == seq(args) and same_dict(ghost('RPCKW', ret), kwargs) and is_dict(ghost('RPCKW', ret)))


@spec
def schedules(ret, proc, name):
    """the reply stands for the direct call proc.<name>(...)"""
    return bound_method(ghost('RPCFN', ret), proc, name) and len(seq(ghost('RPCARGS', ret))) == 0


@spec
def text_of(msg):
    return dget(msg, 'message') if dhas(msg, 'message') else None


@contract('plumpy.processes.Process.message_receive', props=['C16', 'C02', 'C04'])
def message_receive(self, _comm, msg):
    """an RPC message is answered by exactly the direct call its intent names, with the text the message carries; status is
    answered at once with the four status entries; any other intent is an error and does nothing"""
    requires(isinstance(self, Process) and is_dict(msg) and dhas(msg, 'intent') and is_str(dget(msg, 'intent')))
    intent = dget(msg, 'intent')
    modifies(ghost('RPCFN'), ghost('RPCARGS'), ghost('RPCKW'))
    ensures('known_intent', intent == 'play' or intent == 'pause' or intent == 'kill' or intent == 'status')
    ensures('play', implies(intent == 'play', schedules(ret, self, 'play') and dlen(ghost('RPCKW', ret)) == 0))
    ensures('pause', implies(intent == 'pause', schedules(ret, self, 'pause') and dlen(ghost('RPCKW', ret)) == 1
                             and dhas(ghost('RPCKW', ret), 'msg_text') and dget(ghost('RPCKW', ret), 'msg_text') is text_of(msg)))
    ensures('kill', implies(intent == 'kill', schedules(ret, self, 'kill') and dlen(ghost('RPCKW', ret)) == 1
                            and dhas(ghost('RPCKW', ret), 'msg_text') and dget(ghost('RPCKW', ret), 'msg_text') is text_of(msg)))
    ensures('status', implies(intent == 'status', is_dict(ret) and fresh(ret) and dlen(ret) == 4 and dhas(ret, 'ctime') and dhas(ret, 'paused')
                              and dhas(ret, 'process_string') and dhas(ret, 'state')
                              and dget(ret, 'ctime') is self._creation_time and dget(ret, 'paused') is (self._paused is not None)))
    raises(RuntimeError, not (intent == 'play' or intent == 'pause' or intent == 'kill' or intent == 'status'))
    replay('play', 'remote_equals_direct')
    replay('pause', 'remote_equals_direct')
    replay('kill', 'remote_equals_direct')
    replay('status', 'remote_equals_direct')
    replay('known_intent', 'remote_equals_direct')
    replay('raises_only_declared', 'remote_equals_direct')


@contract('plumpy.processes.Process.broadcast_receive', props=['C16', 'C02', 'C04'])
def broadcast_receive(self, _comm, msg, sender, subject, correlation_id):
    """a broadcast is handled like the RPC of the same name; any other subject is ignored"""
    requires(isinstance(self, Process) and (msg is None or is_dict(msg)) and is_str(subject))
    requires(implies(subject == 'pause' or subject == 'kill', is_dict(msg)))
    modifies(ghost('RPCFN'), ghost('RPCARGS'), ghost('RPCKW'))
    raises_nothing()
    ensures('play', implies(subject == 'play', schedules(ret, self, 'play') and dlen(ghost('RPCKW', ret)) == 0))
    ensures('pause', implies(subject == 'pause', schedules(ret, self, 'pause') and dlen(ghost('RPCKW', ret)) == 1
                             and dhas(ghost('RPCKW', ret), 'msg_text') and dget(ghost('RPCKW', ret), 'msg_text') is text_of(msg)))
    ensures('kill', implies(subject == 'kill', schedules(ret, self, 'kill') and dlen(ghost('RPCKW', ret)) == 1
                            and dhas(ghost('RPCKW', ret), 'msg_text') and dget(ghost('RPCKW', ret), 'msg_text') is text_of(msg)))
    ensures('anything_else_is_ignored', implies(not (subject == 'play' or subject == 'pause' or subject == 'kill'), ret is None))
    replay('play', 'remote_equals_direct')
    replay('pause', 'remote_equals_direct')
    replay('kill', 'remote_equals_direct')
    replay('anything_else_is_ignored', 'remote_equals_direct')


@contract('plumpy.processes.Process.on_entered', props=['C16'])
def on_entered(self, from_state):
    """every completed transition is announced exactly once: after the state's own hook, ONE broadcast with body None, the
    process id as sender and the subject state_changed.<from>.<to>; without a communicator nothing is sent"""
    requires(isinstance(self, Process) and concrete_state(self._state) and (from_state is None or concrete_state(from_state)))
    requires(self._communicator is None or is_foreign(self._communicator))
    comm = self._communicator
    n0 = len(calls())
    modifies(user_effects)
    last = calls()[len(calls()) - 1]
    ensures('announced', implies(comm is not None, len(calls()) > n0 and last.recv is comm and last.meth == 'broadcast_send'
                                 and len(seq(last.args)) == 0 and dlen(last.kwargs) == 3
                                 and dget(last.kwargs, 'body') is None and dget(last.kwargs, 'sender') is old(self._pid)))
    ensures('communicator_kept', self._communicator is comm)
    ensures('subject_is_a_state_change', implies(comm is not None, is_str(dget(last.kwargs, 'subject'))
                                                 and prefixof('state_changed.', dget(last.kwargs, 'subject'))))
    raises(BaseException, True)      # the hooks of the entered state run user code and touch the process future
    replay('announced', 'remote_equals_direct')
