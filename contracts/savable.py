# -*- coding: utf-8 -*-
"""Side-car contracts for the LOAD side of plumpy.persistence.Savable (C19, C07, C08).  Parsed with ast by pyvc; never executed.

Loading runs code the library does not know (the classes of nested Savables).  A-PRIV for these units: that code does not
write the members of the object being loaded, nor the saved state it is being loaded from (the saved state is `owned`)."""
import types
from plumpy.loaders import ObjectLoader
from plumpy.persistence import LoadSaveContext, Savable

CONFIG = {
    'user_havoc': 'all',
    'user_results_foreign': True,
    'protected_classes': ['plumpy.persistence.Savable', 'plumpy.persistence.LoadSaveContext'],
}


@spec
def owned_state(s):
    """the saved state (and its metadata dictionaries) is not reachable by the code run during loading"""
    return (owned(s) and implies(dhas(s, '!!meta'), owned(dget(s, '!!meta'))
                                 and implies(dhas(dget(s, '!!meta'), 'types'), owned(dget(dget(s, '!!meta'), 'types')))
                                 and implies(dhas(dget(s, '!!meta'), 'user'), owned(dget(dget(s, '!!meta'), 'user')))))


@spec
def restored_member(v, saved_state, name, load_context):
    """inverse of saved_member: a recorded plain value comes back as recorded; a nested Savable ('S') is what Savable.load
    makes of its recorded state with the same load context"""
    return (implies(not (has_meta_type(saved_state, name) and (meta_type(saved_state, name) == 'm' or meta_type(saved_state, name) == 'S')),
                    v is dget(saved_state, name))
            and implies(has_meta_type(saved_state, name) and meta_type(saved_state, name) == 'S',
                        v is ghost('LOADED', dget(saved_state, name))))


@contract('plumpy.persistence.Savable.load_members', props=['C19', 'C07'], ghost=['M'])
def load_members(self, members, saved_state, load_context=None, M=None):
    """every declared member is restored from its record (M: an arbitrary member name); a missing record is a KeyError"""
    requires(isinstance(self, Savable) and is_dict(saved_state) and wf_state(saved_state) and owned_state(saved_state))
    requires(is_set(members) and owned(members) and forall(lambda k: implies(dhas(members, k), is_str(k) and k != '!!meta')))
    requires(forall(lambda k: implies(dhas(members, k), not class_level_name(self, k))))
    requires(is_str(M))
    requires(load_context is None or (isinstance(load_context, LoadSaveContext) and wf_lsc(load_context)))
    # nested saved states form a tree: each is loadable and belongs to one member only
    requires(forall(lambda k: implies(dhas(members, k) and dhas(saved_state, k) and has_meta_type(saved_state, k) and meta_type(saved_state, k) == 'S',
                                      loadable_state(dget(saved_state, k), load_context))))
    requires(forall(lambda k, j: implies(dhas(members, k) and dhas(members, j) and k != j and dhas(saved_state, k) and dhas(saved_state, j),
                                         not is_ref(dget(saved_state, k)) or dget(saved_state, k) is not dget(saved_state, j))))
    modifies(user_effects, fields(self), ghost('LOADED'))
    ensures('member_restored', implies(dhas(members, M), dhas(saved_state, M)
                                       and restored_member(attr(self, M), saved_state, M, load_context)))
    ensures('state_untouched', dict_unchanged(saved_state))
    raises(KeyError, exists(lambda k: dhas(members, k) and not dhas(saved_state, k)))
    raises(Exception, exists(lambda k: dhas(members, k) and has_meta_type(saved_state, k)))
    loop_modifies(0, user_effects, fields(self), ghost('LOADED'))
    loop_invariant(0, 'restored_so_far', implies(M in _seen, dhas(saved_state, M)
                                                 and restored_member(attr(self, M), saved_state, M, load_context)))
    loop_invariant(0, 'state_untouched', dict_unchanged(saved_state))
    replay('member_restored', 'savable_members')
    replay('loop0.restored_so_far.preserved', 'savable_members')


@spec
def resolving_loader(saved_state, load_context):
    """loader precedence of Savable.load: the context's own loader, else (no recorded loader class) the global default"""
    return load_context.loader if (load_context is not None and load_context.loader is not None) else ghost_const('default_loader')


@spec
def loadable_state(saved_state, load_context):
    """what Savable.load needs of a (nested) saved state"""
    return (is_dict(saved_state) and wf_state(saved_state) and owned_state(saved_state)
            and (not has_custom_meta(saved_state, 'object_loader') or (load_context is not None and load_context.loader is not None))
            and isinstance(resolving_loader(saved_state, load_context), ObjectLoader)
            and implies(has_custom_meta(saved_state, 'object_loader'),
                        is_heap_obj(uf('loaded', ghost_const('default_loader'), custom_meta(saved_state, 'object_loader')))
                        and not is_function(uf('loaded', ghost_const('default_loader'), custom_meta(saved_state, 'object_loader'))))
            and implies(dhas(saved_state, '!!meta') and dhas(dget(saved_state, '!!meta'), 'class_name'),
                        is_foreign(uf('loaded', resolving_loader(saved_state, load_context), dget(dget(saved_state, '!!meta'), 'class_name')))))


@contract('plumpy.persistence.Savable.load', props=['C19', 'C07'])
def savable_load_unit(saved_state, load_context=None):
    """the class is the one the loader resolves the recorded class name to, and the object is what THAT class's
    recreate_from makes of exactly this saved state; a saved state without a class name is a ValueError, not an object.
    (Stated for the loaders that need no user code to obtain: the context's, or the global default; the loader class
    recorded in the saved state is the subject of _ensure_object_loader's own contract.)"""
    requires(load_context is None or (isinstance(load_context, LoadSaveContext) and wf_lsc(load_context)))
    requires(loadable_state(saved_state, load_context))
    has_name = dhas(saved_state, '!!meta') and dhas(dget(saved_state, '!!meta'), 'class_name')
    cls = uf('loaded', resolving_loader(saved_state, load_context), dget(dget(saved_state, '!!meta'), 'class_name'))
    n0 = len(calls())
    modifies(user_effects)
    ghost_update('LOADED', saved_state, ret)
    ensures('remembered', ghost('LOADED', saved_state) is ret)
    ev = calls()[n0]
    ensures('has_a_class_name', has_name)
    ensures('recreated_by_the_resolved_class', len(calls()) == n0 + 1 and ev.recv is cls and ev.meth == 'recreate_from'
            and len(seq(ev.args)) == 2 and seq(ev.args)[0] is saved_state and dlen(ev.kwargs) == 0
            and ret is attr(ev, 'result'))
    ensures('context_carries_the_loader', isinstance(seq(ev.args)[1], LoadSaveContext)
            and seq(ev.args)[1].loader is resolving_loader(saved_state, load_context)
            and implies(load_context is not None and load_context.loader is not None, seq(ev.args)[1] is load_context))
    raises(ValueError, True)
    raises(Exception, has_name and len(calls()) == n0 + 1)
    replay('recreated_by_the_resolved_class', 'savable_members')
    replay('has_a_class_name', 'savable_members')
