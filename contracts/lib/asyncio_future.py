# -*- coding: utf-8 -*-
"""ASSUMED contracts of asyncio.Future (C implementation `_asyncio.Future`) and kiwipy.Future
(= concurrent.futures.Future).  State is modelled through the real attribute names `_state`, `_result`, `_exception`,
`_callbacks` (asyncio.futures._PENDING/_CANCELLED/_FINISHED are the strings below).  Every use is listed as trusted
base in the evidence files."""
import asyncio
import kiwipy

CONFIG = {
    'class_invariants': {'asyncio.Future': 'wf_future', 'kiwipy.Future': 'wf_future'},
    # CB: the done-callback most recently registered on a future and not removed since
    'ghost_arrays': {'CB': 'val'},
}


@spec
def wf_future(f):
    """state model of a future: PENDING has neither result nor exception; FINISHED has not both; a stored exception is
    an Exception (BaseException-only classes such as asyncio.CancelledError are never stored with set_exception)"""
    return ((f._state == 'PENDING' or f._state == 'CANCELLED' or f._state == 'FINISHED')
            and implies(f._state != 'FINISHED', f._result is None and f._exception is None)
            and implies(f._state == 'FINISHED' and f._exception is not None, f._result is None)
            and (f._exception is None or isinstance(f._exception, Exception)))


@lib('asyncio.Future.__init__', also=['kiwipy.Future.__init__'])
def future_init(self, loop=None):
    modifies(fields(self))
    raises_nothing()
    ensures(self._state == 'PENDING' and self._result is None and self._exception is None)
    ensures(is_list(self._callbacks) and fresh(self._callbacks) and len(seq(self._callbacks)) == 0)
    ensures(forall('str', lambda a: implies(a != '_state' and a != '_result' and a != '_exception' and a != '_callbacks' and a != '_loop',
                                            attr(self, a) == old(attr(self, a)))))


@lib('asyncio.Future.done', result_kind='bool', also=['kiwipy.Future.done'])
def future_done(self):
    modifies()
    raises_nothing()
    ensures(result == (self._state != 'PENDING'))


@lib('asyncio.Future.cancelled', result_kind='bool', also=['kiwipy.Future.cancelled'])
def future_cancelled(self):
    modifies()
    raises_nothing()
    ensures(result == (self._state == 'CANCELLED'))


@lib('asyncio.Future.set_result')
def future_set_result(self, value):
    modifies(self._state, self._result)
    ensures(old(self._state) == 'PENDING' and self._state == 'FINISHED' and self._result is value and result is None)
    raises(asyncio.InvalidStateError, old(self._state) != 'PENDING' and unchanged(self._state, self._result))


@lib('asyncio.Future.set_exception')
def future_set_exception(self, exception):
    modifies(self._state, self._exception)
    ensures(old(self._state) == 'PENDING' and self._state == 'FINISHED' and self._exception is exception and result is None)
    raises(asyncio.InvalidStateError, old(self._state) != 'PENDING' and unchanged(self._state, self._exception))


@lib('asyncio.Future.cancel', result_kind='bool', also=['kiwipy.Future.cancel'])
def future_cancel(self, msg=None):
    modifies(self._state)
    raises_nothing()
    ensures(result == (old(self._state) == 'PENDING'))
    ensures(self._state == ('CANCELLED' if old(self._state) == 'PENDING' else old(self._state)))


@lib('asyncio.Future.result')
def future_result(self):
    modifies()
    ensures(self._state == 'FINISHED' and self._exception is None and result is self._result)
    raises(asyncio.CancelledError, self._state == 'CANCELLED')
    raises(asyncio.InvalidStateError, self._state == 'PENDING')
    raises(BaseException, self._state == 'FINISHED' and self._exception is not None and exc is self._exception)


@lib('asyncio.Future.exception')
def future_exception(self):
    modifies()
    ensures(self._state == 'FINISHED' and result is self._exception)
    raises(asyncio.CancelledError, self._state == 'CANCELLED')
    raises(asyncio.InvalidStateError, self._state == 'PENDING')


@lib('asyncio.Future.add_done_callback', also=['kiwipy.Future.add_done_callback'])
def future_add_done_callback(self, fn, context=None):
    """pending: appended to the callback list; done: scheduled with call_soon (not modelled: run later by the loop).
    Ghost CB: the callback most recently registered on the future and not removed since"""
    modifies(contents(self._callbacks))
    raises_nothing()
    ghost_update('CB', self, fn)
    ensures(result is None and ghost('CB', self) is fn)
    ensures(implies(self._state == 'PENDING', seq(self._callbacks) == old(seq(self._callbacks)) + [fn]))
    ensures(implies(self._state != 'PENDING', seq(self._callbacks) == old(seq(self._callbacks))))


@lib('asyncio.Future.remove_done_callback', result_kind='int', also=['kiwipy.Future.remove_done_callback'])
def future_remove_done_callback(self, fn):
    modifies(contents(self._callbacks))
    raises_nothing()
    ghost_update('CB', self, None)
    ensures(ghost('CB', self) is None)
    ensures(not contains(seq(self._callbacks), fn))
    ensures(forall(lambda x: implies(x is not fn, contains(seq(self._callbacks), x) == old(contains(seq(self._callbacks), x)))))


@lib('await:asyncio.Future')
def await_future(fut):
    """outcome of `await fut` once the awaiting task is resumed (the suspension itself is the engine's rely-havoc)"""
    modifies()
    ensures(fut._state == 'FINISHED' and fut._exception is None and result is fut._result)
    raises(asyncio.CancelledError, fut._state == 'CANCELLED')
    raises(BaseException, fut._state == 'FINISHED' and fut._exception is not None and exc is fut._exception)


# ---- kiwipy.Future = concurrent.futures.Future: same state model; its errors are Exception subclasses
import concurrent.futures


@lib('kiwipy.Future.set_result')
def kfuture_set_result(self, value):
    modifies(self._state, self._result)
    ensures(old(self._state) == 'PENDING' and self._state == 'FINISHED' and self._result is value and result is None)
    raises(concurrent.futures.InvalidStateError, old(self._state) != 'PENDING' and unchanged(self._state, self._result))


@lib('kiwipy.Future.set_exception')
def kfuture_set_exception(self, exception):
    modifies(self._state, self._exception)
    ensures(old(self._state) == 'PENDING' and self._state == 'FINISHED' and self._exception is exception and result is None)
    raises(concurrent.futures.InvalidStateError, old(self._state) != 'PENDING' and unchanged(self._state, self._exception))


@lib('kiwipy.Future.result')
def kfuture_result(self, timeout=None):
    """called on completed futures only (inside done-callbacks): the blocking wait of a pending future is not modelled"""
    requires(self._state != 'PENDING')
    modifies()
    ensures(self._state == 'FINISHED' and self._exception is None and result is self._result)
    raises(kiwipy.CancelledError, self._state == 'CANCELLED')
    raises(BaseException, self._state == 'FINISHED' and self._exception is not None and exc is self._exception)


@lib('kiwipy.Future.exception')
def kfuture_exception(self, timeout=None):
    requires(self._state != 'PENDING')
    modifies()
    ensures(self._state == 'FINISHED' and result is self._exception)
    raises(kiwipy.CancelledError, self._state == 'CANCELLED')
