# -*- coding: utf-8 -*-
"""ASSUMED contracts of standard-library functions used by plumpy (copy, time, uuid ...)."""
import copy
import enum


@lib('copy.deepcopy')
def deepcopy(x, memo=None):
    """a value that is not an object is returned as is; an object is copied into a disjoint fresh object graph of the same
    class (immutable atoms may be shared).  `copy_src` relates the copy to its source."""
    modifies()
    raises_nothing()
    ensures(implies(not is_ref(x), ret is x))
    ensures(implies(is_ref(x), is_ref(ret) and same_class(ret, x) and uf('copy_src', ret) is x and (fresh(ret) or ret is x)))
    ensures(implies(is_heap_obj(x) and not is_tuple(x) and not isinstance(x, (type, frozenset, enum.Enum)) and not is_function(x), fresh(ret)))


@lib('copy.copy')
def shallow_copy(x):
    """shallow copy of a plain object: a fresh object of the same class with the same attribute values"""
    requires(is_ref(x))
    modifies()
    raises_nothing()
    ensures(is_ref(ret) and fresh(ret) and same_class(ret, x))
    ensures(forall('str', lambda a: attr(ret, a) is attr(x, a)))
