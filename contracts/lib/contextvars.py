# -*- coding: utf-8 -*-
"""ASSUMED contract of contextvars.ContextVar as seen from ONE task: get() returns the value last set in this task's
context (or the default).  That every task sees its own copy-on-write context -- which is what carries C18 across
interleavings and nested loops -- is asyncio's and is trusted."""
import contextvars


@lib('contextvars.ContextVar.get')
def cv_get(self, default=None):
    modifies()
    raises_nothing()
    ensures(ret is attr(self, '_value'))


@lib('contextvars.ContextVar.set')
def cv_set(self, value):
    modifies(attr(self, '_value'))
    raises_nothing()
    ghost_update('OWN', value, True)   # the value now belongs to the context variable (A-PRIV: nobody else mutates it)
    ensures(attr(self, '_value') is value and owned(value))
