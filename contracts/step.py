# -*- coding: utf-8 -*-
"""Side-car contract for Process.step, the function every step boundary goes through (C03, C04, C05).
Parsed with ast by pyvc; never executed.

The state's `execute` is reached through `_run_task` (contract in scope.py: one call of the callback, inside the scope, result
handed back); here it is unknown code that may return anything, raise anything, and during which control requests arrive:
the attributes those requests write (`unprotected_attrs`) are arbitrary after every call of unknown code and every suspension.
"""
import asyncio
from plumpy.process_states import Excepted, Interruption, KillInterruption, PauseInterruption, ProcessState
from plumpy.futures import CancellableAction
from plumpy.processes import Process
from plumpy import exceptions
import plumpy.workchains

CONFIG = {
    'attr_types': {
        'plumpy.processes.Process._cleanups': 'None|list',
        'plumpy.processes.Process._pausing': 'None|plumpy.futures.CancellableAction',
        'plumpy.processes.Process._killing': 'None|plumpy.futures.CancellableAction',
        'plumpy.processes.Process._interrupt_action': 'None|plumpy.futures.CancellableAction',
        'plumpy.processes.Process._paused': 'None|plumpy.persistence.SavableFuture',
        'plumpy.processes.Process._future': 'plumpy.persistence.SavableFuture',
        'plumpy.process_states.Excepted.exception': 'None|BaseException',
        'plumpy.base.state_machine.StateMachine._state': 'None|plumpy.process_states.State',
    },
    'user_havoc': 'all',
    'protected_classes': ['plumpy.base.state_machine.State', 'plumpy.base.state_machine.StateMachine',
                          'plumpy.process_states.Command', 'contextvars.ContextVar'],
    # control requests (pause / play / kill / resume) arriving while the step runs or sleeps write these, through plumpy's own
    # methods; everything else of the process (its state object, the transition flags) is only written by the step itself
    'unprotected_attrs': ['_interrupt_action', '_pausing', '_killing', '_paused', '_pre_paused_status', '_status'],
    'user_await_interruptible': True,
}


@spec
def legal_or_none(p, s):
    """what a state's execute hands back: nothing, or a state of this process that is a legal successor of the current one
    (proved per state class: Created.execute -> Running, Running.execute -> the state its command denotes or Excepted,
    Waiting.execute -> Running)"""
    return s is None or (concrete_state(s) and legal(p._state.LABEL, s.LABEL))


@contract('plumpy.processes.Process.step', props=['C03', 'C04', 'C05'])
def step(self):
    """one step: sleeps while the process is paused, runs the current state's execute exactly once inside the process scope,
    and then EITHER hands the outcome to the pending interrupt action OR makes the transition -- never both, never neither;
    an Exception of the executed code never escapes (the process goes to EXCEPTED with it); the stepping flag and the pending
    interrupt action are cleared however the step ends"""
    requires(wf_proc(self) and not isinstance(self, plumpy.workchains.WorkChain) and wf_stack())
    requires(not terminal_label(self._state.LABEL) and self._stepping is False)
    n0 = len(calls())
    s0 = self._state
    modifies(all_heap)
    # ---- assumed about the executed state (see legal_or_none) ----
    call_fact('plumpy.processes.Process._run_task', 'execute_hands_back_a_legal_successor', legal_or_none(self, ret))
    # ---- C05: nothing runs while paused; the flag that defers control requests is up while the state executes ----
    call_requires('plumpy.processes.Process._run_task', 'nothing_runs_while_paused', self._paused is None)
    call_requires('plumpy.processes.Process._run_task', 'requests_are_deferred_while_executing', self._stepping is True)
    call_requires('plumpy.processes.Process._run_task', 'runs_the_current_state',
                  bound_method(callback, self._state, 'execute') and self._state is s0 and len(seq(args)) == 0)
    loop_invariant(0, 'asleep_while_paused', wf_proc(self) and self._state is s0 and self._stepping is False and len(calls()) == n0
                   and wf_stack() and self._closed is old(self._closed))
    loop_modifies(0, all_heap)
    ensures('left_clean', self._stepping is False and self._interrupt_action is None)
    raises(exceptions.ClosedError, old(truthy(self._closed)) and calls() == old(calls()))
    # what may still come out: a BaseException-only class (cancellation of the stepping task, KeyboardInterrupt), or whatever the
    # pending interrupt action / the transition hooks raise after the state was executed; the step is cleaned up all the same
    # (a step cancelled while it still sleeps on the pause has not touched anything)
    raises(BaseException, not old(truthy(self._closed)) and self._stepping is False
           and (self._interrupt_action is None or len(calls()) == n0))
    replay('nothing_runs_while_paused', 'control_histories')
    replay('requests_are_deferred_while_executing', 'control_histories')
    replay('runs_the_current_state', 'control_histories')
    replay('left_clean', 'control_histories')

