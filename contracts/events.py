# -*- coding: utf-8 -*-
"""Side-car contracts for plumpy.events (C03, C18).  Parsed with ast by pyvc; never executed."""
from plumpy.events import ProcessCallback
from plumpy.processes import Process
import plumpy.workchains

CONFIG = {
    'user_havoc': 'all',
    'foreign_shortcut': True,
    'protected_classes': ['plumpy.events.ProcessCallback', 'plumpy.base.state_machine.StateMachine', 'plumpy.base.state_machine.State'],
    'user_await_interruptible': True,
}


@contract('plumpy.events.ProcessCallback.run', props=['C03'])
def callback_run(self):
    """a scheduled callback: called once with its arguments unless it was cancelled; an Exception it raises never escapes into
    the event loop -- it is handed to the process (callback_excepted) with exactly that exception; the handle is cleaned up
    in every case"""
    requires(is_bool(self._cancelled))
    requires(implies(self._cancelled is False, isinstance(self._process, Process) and wf_proc(self._process)
                     and not isinstance(self._process, plumpy.workchains.WorkChain)
                     and is_heap_obj(self._callback) and not is_function(self._callback)
                     and (is_tuple(self._args) or is_list(self._args)) and is_dict(self._kwargs)
                     and forall(lambda k: implies(dhas(self._kwargs, k), is_str(k)))))
    n0 = len(calls())
    cb = self._callback
    kw0 = self._kwargs
    args0 = seq(self._args)
    was_cancelled = self._cancelled is True
    modifies(user_effects, fields(self), fields(self._process))
    ensures('cancelled_callbacks_do_not_run', implies(was_cancelled, len(calls()) == n0))
    ensures('called_with_its_arguments', implies(not was_cancelled, len(calls()) > n0 and calls()[n0].fn is cb
                                                 and seq(calls()[n0].args) == args0 and same_dict_old(calls()[n0].kwargs, kw0)))
    ensures('handle_cleaned_up', implies(not was_cancelled, self._process is None and self._callback is None))
    # an Exception of the callback itself is handed to the process; what can still come out is an exception raised while the
    # process handles that failure (a hook of the EXCEPTED transition) or a BaseException-only class (cancellation)
    raises(BaseException, len(calls()) > n0)
    replay('called_with_its_arguments', 'failure_injection')
    replay('raises_only_declared', 'failure_injection')


@contract('plumpy.processes.Process.call_soon', props=['C03', 'C18'])
def call_soon(self, callback, *args, **kwargs):
    """a callback handed to call_soon is wrapped so that it runs through _run_task of THIS process (hence inside its scope,
    and its failure is routed to the process by ProcessCallback.run): the handle holds (self, self._run_task, (callback, *args),
    kwargs) and its run() coroutine is given to the loop"""
    requires(isinstance(self, Process) and is_foreign(self._loop))
    n0 = len(calls())
    given = seq(args)
    nkw = dlen(kwargs)
    modifies(user_effects)
    ensures('wrapped_for_this_process', type_is(ret, ProcessCallback) and fresh(ret) and ret._process is self
            and bound_method(ret._callback, self, '_run_task') and ret._cancelled is False)
    ensures('callback_first_then_its_arguments', len(seq(ret._args)) == len(given) + 1 and seq(ret._args)[0] is callback
            and seq(ret._args) == [callback] + given and is_dict(ret._kwargs))
    ensures('handed_to_the_loop', len(calls()) == n0 + 1 and calls()[n0].recv is old(self._loop) and calls()[n0].meth == 'create_task')
    raises(Exception, len(calls()) == n0 + 1)
    replay('wrapped_for_this_process', 'failure_injection')
    replay('callback_first_then_its_arguments', 'failure_injection')
