# -*- coding: utf-8 -*-
"""Side-car contracts for output emission (C12).  Parsed with ast by pyvc; never executed.

The port tree is abstract here: which values a port accepts is decided by Port.validate / validate_dynamic_ports (C11's subject);
`out` is verified against their ASSUMED result contracts: it stores exactly when the verdict is "no error", and a rejected value
changes nothing."""
import plumpy.ports
from plumpy.ports import Port, PortNamespace, PortValidationError
from plumpy.processes import Process

CONFIG = {
    'user_havoc': 'all',
    'protected_classes': ['plumpy.base.state_machine.StateMachine', 'plumpy.base.state_machine.State', 'plumpy.ports.Port',
                          'plumpy.event_helper.EventHelper'],
    # VERDICT: what the validation of the most recent value against a port / dynamic namespace returned
    'ghost_arrays': {'VERDICT': 'val'},
}


@contract('plumpy.ports.PortNamespace.get_port', assumed=True, dispatch='static')
def get_port(self, name, create_dynamically=False):
    """ASSUMED: resolves a (possibly nested) name to a port of the tree below self, creating dynamic sub-namespaces on the way
    when asked; an unresolvable name is a ValueError; only the port tree is written"""
    modifies()
    ensures(isinstance(ret, Port) and ret is uf('resolved_port', self, name))
    raises(ValueError, True)


@spec
def port_accepts_shape(port, value):
    """the part of a port's verdict that does not depend on the validator: a missing value only if the port is not required,
    a supplied one only if it has the declared type"""
    return ((value is not plumpy.ports.UNSPECIFIED or port._required is False or not truthy(port._required))
            and (value is plumpy.ports.UNSPECIFIED or port._valid_type is None or isinstance_sym(value, port._valid_type)))


@spec
def wf_port(p):
    """shape of a port: it has a name; its validator, if any, is user code (a callable object that is not one of plumpy's functions)"""
    return is_str(p._name) and (p._validator is None or (is_heap_obj(p._validator) and not is_function(p._validator)))


@contract('plumpy.ports.Port.validate', dispatch='static', props=['C11', 'C12'])
def port_validate(self, value, breadcrumbs=()):
    """the verdict of a port on a value: None (accepted) or a PortValidationError.  Accepted exactly when: a missing value
    and the port is not required; or a supplied value of the declared type for which the validator (user code, called once
    with the value -- and the port, for two-argument validators) returns None.  A missing value is never shown to the
    validator"""
    requires(isinstance(self, Port) and wf_port(self) and (is_tuple(breadcrumbs) or is_list(breadcrumbs)))
    n0 = len(calls())
    missing = value is plumpy.ports.UNSPECIFIED
    modifies(user_effects)
    ghost_update('VERDICT', self, ret)
    ensures('a_verdict', (ret is None or isinstance(ret, PortValidationError)) and ghost('VERDICT', self) is ret)
    ensures('shape_is_checked_first', implies(not port_accepts_shape(self, value), ret is not None and len(calls()) == n0))
    ensures('missing_values_skip_the_validator', implies(missing, len(calls()) == n0))
    ensures('no_validator_no_objection', implies(port_accepts_shape(self, value) and (self._validator is None or missing), ret is None))
    ensures('validator_decides', implies(port_accepts_shape(self, value) and self._validator is not None and not missing,
                                         len(calls()) == n0 + 1 and calls()[n0].fn is old(self._validator)
                                         and seq(calls()[n0].args)[0] is value
                                         and (ret is None) == (attr(calls()[n0], 'result') is None)))
    raises(Exception, True)
    replay('shape_is_checked_first', 'input_validation')
    replay('no_validator_no_objection', 'input_validation')
    replay('validator_decides', 'input_validation')
    replay('missing_values_skip_the_validator', 'input_validation')


@contract('plumpy.ports.PortNamespace.validate_dynamic_ports', assumed=True, dispatch='static')
def validate_dynamic_ports(self, port_values, breadcrumbs=()):
    """ASSUMED (C11): the verdict of a namespace on undeclared values: None or a PortValidationError"""
    modifies(user_effects)
    ghost_update('VERDICT', self, ret)
    ensures((ret is None or isinstance(ret, PortValidationError)) and ghost('VERDICT', self) is ret)
    raises(Exception, True)


@contract('plumpy.processes.Process.out', props=['C12'])
def out(self, output_port, value):
    """a top-level emission: stored exactly when the port's (or, for an undeclared name, the dynamic namespace's) verdict is
    'accepted'; a rejected value raises ValueError and leaves the outputs untouched"""
    requires(isinstance(self, Process) and self._closed is False and is_str(output_port) and is_dict(self._outputs) and owned(self._outputs))
    requires(not str_contains(output_port, '.'))        # top-level port (nested paths: bounded search `output_emission`)
    outs_ns = uf('outputs_ns', uf('spec_of', cls_of(self)))
    requires(isinstance(outs_ns, PortNamespace) and is_dict(outs_ns._ports) and owned(outs_ns._ports))
    declared = dhas(outs_ns._ports, output_port)
    port = dget(outs_ns._ports, output_port)
    requires(implies(declared, isinstance(port, Port) and wf_port(port)))
    modifies(user_effects, contents(self._outputs), ghost('VERDICT'))
    verdict = ghost('VERDICT', port) if declared else ghost('VERDICT', outs_ns)
    ensures('stored_only_if_accepted', verdict is None and dhas(self._outputs, output_port) and dget(self._outputs, output_port) is value)
    ensures('other_outputs_kept', forall(lambda k: implies(k != output_port, dhas(self._outputs, k) == old(dhas(self._outputs, k))
                                                           and dget(self._outputs, k) is old(dget(self._outputs, k)))))
    raises(ValueError, implies(verdict is not None and isinstance(verdict, PortValidationError), dict_unchanged(self._outputs)))
    raises(Exception, dict_unchanged(self._outputs))
    # a top-level name has no namespace components: the descent loop has nothing to do
    loop_invariant(0, 'no_components', len(seq(namespace)) == 0 and output_namespace is self._outputs)
    loop_modifies(0)
    replay('stored_only_if_accepted', 'output_emission')
    replay('other_outputs_kept', 'output_emission')
    replay('raises_only_declared', 'output_emission')


@contract('plumpy.ports.PortNamespace.validate_ports', assumed=True, dispatch='static')
def validate_ports(self, port_values, breadcrumbs):
    """ASSUMED (recursion over the declared ports; each port's own verdict is Port.validate / this function): None or an error"""
    modifies(user_effects, contents(port_values))
    ensures(ret is None or isinstance(ret, PortValidationError))
    raises(Exception, True)


@contract('plumpy.ports.PortNamespace.validate', dispatch='static', props=['C11', 'C12'])
def namespace_validate(self, port_values=None, breadcrumbs=()):
    """the verdict of a namespace on the value given for it: only None and the UNSPECIFIED marker stand for 'nothing given'; any
    other value that is not a mapping -- falsy ones included -- is refused without consulting ports or validator"""
    requires(isinstance(self, PortNamespace))
    # input shapes the unit is verified for (not demanded from callers, who only rely on `a_verdict`): the value given is nothing, a
    # plain dict or a non-mapping atom / list; breadcrumbs are a tuple or list; the validator, if any, is user code
    assumes('shapes', is_str(self._name) and (is_tuple(breadcrumbs) or is_list(breadcrumbs))
            and (port_values is None or port_values is plumpy.ports.UNSPECIFIED or is_dict(port_values) or is_int(port_values)
                 or is_str(port_values) or is_bool(port_values) or is_list(port_values))
            and (self._validator is None or (is_heap_obj(self._validator) and not is_function(self._validator))))
    n0 = len(calls())
    nothing = port_values is None or port_values is plumpy.ports.UNSPECIFIED
    modifies(user_effects)
    ensures('a_verdict', ret is None or isinstance(ret, PortValidationError))
    ensures('not_a_mapping_is_refused', implies(not nothing and not is_dict(port_values), isinstance(ret, PortValidationError) and len(calls()) == n0))
    raises(Exception, True)
    replay('not_a_mapping_is_refused', 'output_emission')
