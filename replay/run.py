# -*- coding: utf-8 -*-
"""Replay of a refuted obligation on the REAL code (run under /venv/bin/python, where `plumpy` is the editable install
of /repo/src, i.e. the current working tree).

usage: run.py <replay.json>      exit 10: the violated clause was reproduced on the real code
                                  exit 0 : not reproduced       other: replay machinery error
"""
import asyncio
import json
import os
import sys
import traceback

sys.path.insert(0, os.path.dirname(os.path.abspath(__file__)))
if os.environ.get('PYVC_REPO_SRC'):
    sys.path.insert(0, os.environ['PYVC_REPO_SRC'])


def to_py(d, objects=None):
    """Counter-model value description -> plain Python value (objects of unknown class become fresh `object()`s,
    shared by ref id)"""
    objects = objects if objects is not None else {}
    if not isinstance(d, dict):
        return d
    if 'const' in d:
        if d['const'] == 'builtins.()':
            return ()
        return ('const', d['const'])
    if 'class' in d and 'ref' not in d:
        return ('class', d['class'])
    if 'function' in d:
        return ('function', d['function'])
    rid = d.get('ref')
    if rid in objects:
        return objects[rid]
    cls = d.get('class')
    if cls in ('list', 'tuple'):
        items = [to_py(x, objects) for x in d.get('items', [])]
        val = items if cls == 'list' else tuple(items)
    elif cls == 'dict':
        val = {}
        for k, v in d.get('items', {}).items():
            kk = to_py(json.loads(k), objects)
            try:
                val[kk] = to_py(v, objects)
            except TypeError:
                pass
    else:
        val = Obj(cls, {k: to_py(v, objects) for k, v in d.get('fields', {}).items()}) if d.get('fields') else Obj(cls, {})
    objects[rid] = val
    return val


class Obj:
    def __init__(self, cls, fields):
        self.cls = cls
        self.fields = fields

    def __repr__(self):
        return f'<{self.cls}>'


def main():
    path = sys.argv[1]
    doc = json.load(open(path))
    recipe = doc.get('recipe')
    import recipes
    fn = getattr(recipes, recipe, None)
    if fn is None:
        print(f'no recipe {recipe}')
        return 0
    try:
        res = fn(doc)
    except Exception:
        traceback.print_exc()
        return 3
    if res:
        print('REPRODUCED on the real code:', res)
        return 10
    print('not reproduced')
    return 0


if __name__ == '__main__':
    sys.exit(main())
