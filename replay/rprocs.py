# -*- coding: utf-8 -*-
"""Module-level process classes used by the replay recipes (they must be importable by the object loader)."""
import plumpy


class Plain(plumpy.Process):
    def run(self):
        return None


class CtxProc(plumpy.mixins.ContextMixin, plumpy.Process):
    def run(self):
        return None


class ScopeProc(plumpy.Process):
    @classmethod
    def define(cls, spec):
        super().define(spec)
        spec.input('gate', required=False)

    def __init__(self, *a, **k):
        super().__init__(*a, **k)
        self.seen = []

    async def run(self):
        self.seen.append(('run-before-await', plumpy.Process.current()))
        child = Plain()
        child.execute()   # nested, re-entrant execution of another process
        self.seen.append(('run-after-nested', plumpy.Process.current()))
        await self.inputs.gate
        self.seen.append(('run-after-await', plumpy.Process.current()))
        self.call_soon(lambda: self.seen.append(('call_soon', plumpy.Process.current())))
        return plumpy.Continue(self.second)

    def second(self):
        self.seen.append(('continuation', plumpy.Process.current()))
        # scheduled from the last step: runs when the process has already finished, still as code of this process
        self.call_soon(lambda: self.seen.append(('call_soon-after-the-last-step', plumpy.Process.current())))


class HookProc(plumpy.Process):
    def __init__(self, *a, **k):
        self.seen = []
        super().__init__(*a, **k)

    def run(self):
        self.seen.append(('run', plumpy.Process.current()))

    def on_run(self):
        super().on_run()
        self.seen.append(('on_run', plumpy.Process.current()))

    def on_running(self):
        super().on_running()
        self.seen.append(('on_running', plumpy.Process.current()))

    def on_finish(self, result, successful):
        super().on_finish(result, successful)
        self.seen.append(('on_finish', plumpy.Process.current()))

    def on_finished(self):
        super().on_finished()
        self.seen.append(('on_finished', plumpy.Process.current()))


def make_chain(outline_builder, oracle):
    """a WorkChain class whose steps s0.. and predicates p0.. log their calls and answer from `oracle` (a dict name->list)"""
    import plumpy

    log = []

    def mk(name):
        def fn(self):
            log.append(name)
            vals = oracle.get(name, [])
            i = sum(1 for x in log if x == name) - 1
            return vals[i] if i < len(vals) else (False if name.startswith('p') else None)
        fn.__name__ = name
        return fn

    ns = {n: mk(n) for n in ['s0', 's1', 's2', 's3', 'p0', 'p1', 'p2']}

    def define(cls, spec):
        super(Chain, cls).define(spec)
        spec.outline(*outline_builder(cls))

    ns['define'] = classmethod(define)
    Chain = type('Chain', (plumpy.WorkChain,), ns)
    Chain.log = log
    return Chain
