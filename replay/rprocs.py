# -*- coding: utf-8 -*-
"""Module-level process classes used by the replay recipes (they must be importable by the object loader)."""
import plumpy


class Plain(plumpy.Process):
    def run(self):
        return None


class CtxProc(plumpy.mixins.ContextMixin, plumpy.Process):
    def run(self):
        return None
