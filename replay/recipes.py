# -*- coding: utf-8 -*-
"""Replay recipes: build the counter-model's inputs with the real classes, run the real function, evaluate the violated
clause natively.  Each recipe returns a non-empty description if the violation is reproduced, else a falsy value."""
import asyncio
import json

from run import Obj, to_py


def _plain(v):
    """model value -> something usable as an argument (unknown objects become sentinels)"""
    if isinstance(v, Obj):
        return ('obj', v.cls)
    if isinstance(v, tuple) and len(v) == 2 and v[0] in ('const', 'class', 'function'):
        return v
    return v


def _inputs(doc):
    cx = doc.get('counterexample') or {}
    return {k: to_py(v) for k, v in (cx.get('inputs') or {}).items()}


def _dummy_process():
    import plumpy

    class _P(plumpy.Process):
        def run(self):
            return None

        def nxt(self, *a, **k):
            return (a, k)

    return _P()


# ---------------------------------------------------------------------------------------------------- C13
def action_command(doc):
    """Running._action_command(command): command built from the counter-model (class + payload); the clauses of the
    contract are evaluated on the real result."""
    import plumpy
    from plumpy import process_states as ps

    inp = _inputs(doc)
    cmd = inp.get('command')
    if not isinstance(cmd, Obj):
        return None
    proc = _dummy_process()
    state = ps.Running(proc, proc.run)
    f = cmd.fields
    name = cmd.cls.rsplit('.', 1)[-1]
    if name == 'Continue':
        args = f.get('args')
        args = tuple(_plain(x) for x in args) if isinstance(args, (tuple, list)) else ()
        kwargs = f.get('kwargs')
        kwargs = {str(k): _plain(v) for k, v in kwargs.items() if isinstance(k, str)} if isinstance(kwargs, dict) else {}
        fn = proc.nxt
        command = ps.Continue(fn, *args, **kwargs)
        res = state._action_command(command)
        bad = []
        if not isinstance(res, ps.Running):
            bad.append(f'result is {type(res).__name__}')
        else:
            if tuple(res.args) != tuple(command.args):
                bad.append(f'args {res.args!r} != {command.args!r}')
            if dict(res.kwargs) != dict(command.kwargs):
                bad.append(f'kwargs {res.kwargs!r} != {command.kwargs!r} for Continue(f, *{args!r}, **{kwargs!r})')
        return '; '.join(bad)
    if name == 'Wait':
        command = ps.Wait(proc.nxt, _plain(f.get('msg')), _plain(f.get('data')))
        res = state._action_command(command)
        ok = isinstance(res, ps.Waiting) and res.done_callback == command.continue_fn and res.msg == command.msg and res.data == command.data
        return None if ok else f'Wait mapped to {res!r}'
    if name == 'Stop':
        command = ps.Stop(_plain(f.get('result')), bool(f.get('successful')))
        res = state._action_command(command)
        ok = isinstance(res, ps.Finished) and res.result == command.result and res.successful == command.successful
        return None if ok else f'Stop mapped to {res!r}'
    if name == 'Kill':
        command = ps.Kill(_plain(f.get('msg')))
        res = state._action_command(command)
        ok = isinstance(res, ps.Killed) and res.msg == command.msg
        return None if ok else f'Kill mapped to {res!r}'
    return None


def waiting_resume(doc):
    """Waiting.resume(value) on a freshly armed waiting state: the first resume must record exactly `value`"""
    from plumpy import process_states as ps
    from plumpy.lang import NULL

    inp = _inputs(doc)
    proc = _dummy_process()
    bad = []
    cands = [_plain(inp.get('value'))] if 'value' in inp else []
    for value in cands + [None, 0, '', NULL, ValueError('a value that happens to be an exception'), KeyError('k'), [1, 2]]:
        st = ps.Waiting(proc, proc.nxt)
        st.resume(value)
        try:
            got = st._waiting_future.result()
        except Exception as e:  # noqa
            bad.append(f'resume({value!r}) made the waiting future RAISE {e!r} instead of recording the value')
            break
        if got is not value and not (value is NULL and got == NULL):
            bad.append(f'resume({value!r}) recorded {got!r}')
            break
    return '; '.join(bad)


# ---------------------------------------------------------------------------------------------------- C19
def custom_meta_roundtrip(doc):
    """get_custom_meta(s, n) after set_custom_meta(s, n, v), on the saved-state mapping of the counter-model"""
    from plumpy.persistence import Savable

    inp = _inputs(doc)
    name = inp.get('name') if isinstance(inp.get('name'), str) else 'object_loader'
    state = inp.get('saved_state', inp.get('out_state'))
    state = state if isinstance(state, dict) else {}
    state = {k: v for k, v in state.items() if isinstance(k, str)}
    if not isinstance(state.get('!!meta', {}), dict):
        state.pop('!!meta')
    value = _plain(inp.get('value', 'the-recorded-value'))
    Savable.set_custom_meta(state, name, value)
    try:
        got = Savable.get_custom_meta(state, name)
    except ValueError as e:
        return f'set_custom_meta(s, {name!r}, {value!r}) then get_custom_meta(s, {name!r}) raised ValueError({e}); s = {state!r}'
    if got != value:
        return f'get_custom_meta returned {got!r}, recorded {value!r}'
    return None


# ---------------------------------------------------------------------------------------------------- C15
def _d4_selected(tree, include, exclude, prefix=''):
    """DESIGN D.4 reference semantics on a nested dict tree (leaf = None, namespace = dict): the selected paths"""
    def below_or_equal(rule, path):  # rule names path or an ancestor of it (component-wise)
        return path == rule or path.startswith(rule + '.')

    out = set()
    for name, sub in tree.items():
        path = prefix + name
        if exclude is not None and any(below_or_equal(r, path) for r in exclude):
            continue
        if sub is None:
            if include is None or not include or any(below_or_equal(r, path) for r in include):
                out.add(path)
        else:
            whole = include is None or not include or any(below_or_equal(r, path) for r in include)
            if whole:
                out |= _d4_selected(sub, None, exclude, path + '.')
                out.add(path)
            elif any(r.startswith(path + '.') for r in include):
                out |= _d4_selected(sub, include, exclude, path + '.')
                out.add(path)
    return out


def _build_ns(tree, name=''):
    from plumpy.ports import InputPort, PortNamespace
    ns = PortNamespace(name)
    for k, sub in tree.items():
        ns[k] = InputPort(k) if sub is None else _build_ns(sub, k)
    return ns


def _paths(ns, prefix=''):
    from plumpy.ports import PortNamespace
    out = set()
    for k, p in ns.items():
        out.add(prefix + k)
        if isinstance(p, PortNamespace):
            out |= _paths(p, prefix + k + '.')
    return out


def absorb_selection(doc):
    """Replay / bounded search for PortNamespace.absorb: the counter-model's rule lists first, then every rule set of at
    most two rules over small source trees whose names are string prefixes of one another."""
    from plumpy.ports import PortNamespace

    inp = _inputs(doc)
    trees = [
        {'base': {'a': None, 'z': None}, 'base2': {'z': None, 'y': None}, 'c': None},
        {'a': {'b': {'c': None, 'd': None}, 'bb': None}, 'ab': None},
    ]
    cands = []
    for key in ('include', 'exclude'):
        v = inp.get(key)
        if isinstance(v, (list, tuple)) and v and all(isinstance(x, str) for x in v):
            cands.append((key, list(v)))
    import itertools
    for tree in trees:
        allp = sorted(_paths(_build_ns(tree)))
        rulesets = [[p] for p in allp] + [list(c) for c in itertools.combinations(allp, 2)
                                           if not (c[1].startswith(c[0] + '.') or c[0].startswith(c[1] + '.'))]
        for key, rules in cands + [(k, r) for k in ('include', 'exclude') for r in rulesets]:
            src = _build_ns(tree)
            dst = PortNamespace('dst')
            kw = {key: rules}
            try:
                dst.absorb(src, **kw)
            except Exception as e:  # noqa
                continue
            got = _paths(dst)
            want = _d4_selected(tree, kw.get('include'), kw.get('exclude'))
            if got != want:
                return (f'absorb(source={tree}, {key}={rules}) exposed {sorted(got)}; the rules select {sorted(want)} '
                        f'(extra {sorted(got - want)}, missing {sorted(want - got)})')
    return None


def absorb_independent(doc):
    """independence of an exposed nested namespace: adding a port to the source afterwards must not show in the copy"""
    from plumpy.ports import InputPort, PortNamespace

    for kw in ({}, {'include': ['a']}, {'exclude': ['c']}, {'include': ['a.b']}):
        tree = {'a': {'b': {'c': None}, 'x': None}, 'c': None}
        src = _build_ns(tree)
        dst = PortNamespace('dst')
        dst.absorb(src, **kw)
        before = _paths(dst)
        src['a']['late'] = InputPort('late')
        src['a']['b']['late2'] = InputPort('late2')
        after = _paths(dst)
        if before != after:
            return f'absorb(source, {kw}) shares nested port dictionaries with the source: later additions {sorted(after - before)} show through'
    # a nested namespace that has NO ports yet is copied like any other: ports added later on either side stay on that side
    for kw in ({}, {'exclude': ['c']}):
        src = _build_ns({'a': {'x': None}, 'empty': {}, 'c': None})
        dst = PortNamespace('dst')
        dst.absorb(src, **kw)
        if 'empty' not in dst:
            return f'absorb(source, {kw}) dropped a nested namespace that has no ports'
        dst['empty']['added_to_copy'] = InputPort('added_to_copy')
        src['empty']['added_to_source'] = InputPort('added_to_source')
        if 'added_to_copy' in src['empty'] or 'added_to_source' in dst['empty'] or dst['empty'].ports is src['empty'].ports:
            return (f'absorb(source, {kw}): the exposed copy of a nested namespace without ports shares its port dictionary with the source '
                    f'(source now holds {sorted(src["empty"].keys())}, copy {sorted(dst["empty"].keys())})')
        if 'a' in dst and dst['a'].ports is src['a'].ports:
            return f'absorb(source, {kw}): exposed namespace `a` shares its port dictionary with the source'
    # deep independence: no port object at any depth is shared, and overriding an attribute of a port on either side afterwards
    # does not show on the other side
    for kw in ({}, {'exclude': ['c']}, {'include': ['a']}, {'exclude': ['zzz']}, {'include': ['a', 'c']}):
        tree = {'a': {'b': {'c': None, 'd': None}, 'x': None}, 'c': None}
        src = _build_ns(tree)
        dst = PortNamespace('dst')
        dst.absorb(src, **kw)

        def walk(ns, prefix=''):
            for name, port in ns.items():
                yield prefix + name, port
                if isinstance(port, PortNamespace):
                    yield from walk(port, prefix + name + '.')
        src_objs = {id(p): path for path, p in walk(src)}
        for path, port in walk(dst):
            if id(port) in src_objs:
                return f'absorb(source, {kw}): the exposed port {path} IS the source object {src_objs[id(port)]} (not a copy)'
        for path, port in walk(src):
            if not isinstance(port, PortNamespace):
                port.help = 'changed in the source afterwards'
        for path, port in walk(dst):
            if not isinstance(port, PortNamespace) and port.help == 'changed in the source afterwards':
                return f'absorb(source, {kw}): a later change of the source port {path} shows in the exposed copy'
    return None


def expose_calls(doc):
    """bounded search over SEQUENCES of expose_inputs / expose_outputs calls on one spec (1 or 2 calls, same or different source
    class, same or different namespace, include / exclude / neither, namespace options on either call): the destination holds
    exactly the union of what each call selects, the options of a call are applied whenever it is made, and exclude+include
    together is refused"""
    import itertools
    import plumpy

    class SrcA(plumpy.Process):
        @classmethod
        def define(cls, spec):
            super().define(spec)
            for n in ('a', 'b', 'c'):
                spec.input(n, valid_type=int, required=False)
                spec.output(n, valid_type=int, required=False)
            spec.input('sub.x', valid_type=int, required=False)
            spec.output('sub.x', valid_type=int, required=False)

    class SrcB(SrcA):
        pass

    own = {'inputs': set(), 'outputs': set()}

    def selected(kw):
        names = {'a', 'b', 'c', 'sub'}
        if kw.get('include'):       # (an empty rule list is no rule, as in absorb_selection)
            return {n for n in names if n in kw['include']}
        if kw.get('exclude'):
            return {n for n in names if n not in kw['exclude']}
        return names
    rules = [{}, {'include': ('a',)}, {'include': ('b', 'sub')}, {'exclude': ('a',)}, {'include': ()}]
    spaces = [None, 'base', 'deep.er']
    bad = []
    for which in ('inputs', 'outputs'):
        for (r1, r2), (n1, n2), (k1, k2), opt2 in itertools.product(itertools.product(rules, rules), itertools.product(spaces, spaces),
                                                                   [(SrcA, SrcA), (SrcA, SrcB)], [None, {'help': 'second call'}]):
            if n1 != n2 and r1 is not rules[1]:
                continue        # different namespaces: one pair of rules is enough
            spec = plumpy.ProcessSpec()
            expose = spec.expose_inputs if which == 'inputs' else spec.expose_outputs
            root = spec.inputs if which == 'inputs' else spec.outputs
            before = set(root.keys())
            try:
                expose(k1, namespace=n1, **r1)
                kw2 = dict(r2)
                if opt2 is not None:
                    kw2['namespace_options'] = dict(opt2)
                expose(k2, namespace=n2, **kw2)
            except Exception as e:  # noqa
                bad.append(f'expose_{which}({k1.__name__}, namespace={n1}, {r1}) then ({k2.__name__}, namespace={n2}, {r2}, options={opt2}) raised {e!r}')
                continue
            want = {}
            for n_, r_ in ((n1, r1), (n2, r2)):
                want.setdefault(n_, set()).update(selected(r_))
            for n_, names in want.items():
                ns = root if n_ is None else root.get_port(n_)
                got = set(ns.keys()) - (before if n_ is None else set()) - ({s_.split('.')[0] for s_ in spaces if s_} if n_ is None else set()) \
                    - ({'er'} if n_ == 'deep' else set())
                if n_ is None:
                    names = names | set()
                if got != names:
                    bad.append(f'expose_{which}({k1.__name__}, namespace={n1}, {r1}) then ({k2.__name__}, namespace={n2}, {r2}): namespace '
                               f'{n_!r} holds {sorted(got)}, expected the union {sorted(names)}')
            if opt2 is not None and n2 is not None and root.get_port(n2).help != 'second call':
                bad.append(f'expose_{which}(..., namespace={n2}, namespace_options={opt2}) as the second call ({k1.__name__} then {k2.__name__}, rules '
                           f'{r1} / {r2}): the namespace help is {root.get_port(n2).help!r}')
            if len(bad) > 4:
                return '; '.join(bad[:3])
    spec = plumpy.ProcessSpec()
    try:
        spec.expose_inputs(SrcA, namespace='n', exclude=('a',), include=('b',))
        bad.append('exclude and include given together were accepted')
    except ValueError:
        pass
    return '; '.join(bad[:3]) or None


def strip_namespace_spec(doc):
    """PortNamespace.strip_namespace against DESIGN D.4: the rules strictly below namespace+separator, stripped of
    exactly that prefix, in order.  Counter-model inputs first, then a small grid."""
    from plumpy.ports import PortNamespace

    def want(ns, sep, rules):
        if rules is None:
            return None
        p = ns + sep
        return [r[len(p):] for r in rules if r.startswith(p)]

    inp = _inputs(doc)
    cases = []
    if isinstance(inp.get('namespace'), str) and isinstance(inp.get('separator'), str) and isinstance(inp.get('rules'), (list, tuple)) \
            and all(isinstance(x, str) for x in inp['rules']):
        cases.append((inp['namespace'], inp['separator'], list(inp['rules'])))
    cases += [('base', '.', ['base.a', 'base.sub.b', 'relax.base.c', 'd', 'base2.z', 'base']),
              ('a', '.', ['a.b.c', 'a.b', 'ab.c', 'a']), ('ns', '.', None), ('x', '.', [])]
    for ns, sep, rules in cases:
        got = PortNamespace.strip_namespace(ns, sep, rules)
        if got != want(ns, sep, rules):
            return f'strip_namespace({ns!r}, {sep!r}, {rules!r}) = {got!r}, the rules below the namespace are {want(ns, sep, rules)!r}'
    return None


# ---------------------------------------------------------------------------------------------------- C20
def cancellable_action(doc):
    """CancellableAction: runs its function at most once with the exact arguments, reports the outcome through itself,
    refuses to run again or after cancellation."""
    import asyncio
    from plumpy import futures

    async def main():
        bad = []
        calls = []

        def act(*a, **k):
            calls.append((a, k))
            if a and a[0] == 'boom':
                raise ValueError('boom')
            return ('ret', a, k)

        a1 = futures.CancellableAction(act)
        a1.run(1, x=2)
        if calls != [((1,), {'x': 2})] or a1.result() != ('ret', (1,), {'x': 2}):
            bad.append(f'run(1, x=2): calls={calls}, result={a1.result()!r}')
        try:
            a1.run(3)
            bad.append('second run() did not raise')
        except futures.InvalidStateError:
            pass
        if len(calls) != 1:
            bad.append(f'function ran {len(calls)} times')
        a2 = futures.CancellableAction(act)
        a2.cancel()
        n = len(calls)
        try:
            a2.run(5)
            bad.append('run() after cancel() did not raise')
        except futures.InvalidStateError:
            pass
        except Exception as e:  # noqa
            bad.append(f'run() after cancel() raised {type(e).__name__} instead of plumpy InvalidStateError')
        if len(calls) != n:
            bad.append('the function ran after cancellation')
        a3 = futures.CancellableAction(act)
        a3.run('boom')
        if not isinstance(a3.exception(), ValueError):
            bad.append('exception of the action not reported through the action future')
        return '; '.join(bad)

    return asyncio.new_event_loop().run_until_complete(main())


def task_outcomes(doc):
    """bounded search: futures.create_task and communications.plum_to_kiwi_future for every way a scheduled coroutine can end
    (value incl. falsy ones, exception, cancellation raised inside it, cancellation of a future it awaits, a value that is
    itself a loop future to depth 2): the returned future and its communicator-side mirror end with exactly that outcome, once"""
    import kiwipy
    from plumpy import communications, futures

    class Boom(Exception):
        pass

    async def main():
        loop = asyncio.get_event_loop()
        bad = []
        inner_cancel = loop.create_future()

        def mk(kind, val=None):
            async def coro():
                await asyncio.sleep(0)
                if kind == 'value':
                    return val
                if kind == 'raise':
                    raise Boom('x')
                if kind == 'cancel-self':
                    raise asyncio.CancelledError()
                if kind == 'cancel-awaited':
                    f = loop.create_future()
                    loop.call_soon(f.cancel)
                    return await f
                if kind == 'future':
                    f = loop.create_future()
                    loop.call_later(0.01, f.set_result, val)
                    return f
            return coro
        cases = [('value', 5), ('value', 0), ('value', None), ('value', ''), ('raise', None), ('cancel-self', None), ('cancel-awaited', None),
                 ('future', 9)]
        for kind, val in cases:
            fut = futures.create_task(mk(kind, val), loop)
            mirror = communications.plum_to_kiwi_future(fut)
            for _ in range(60):
                await asyncio.sleep(0.002)
                if fut.done() and mirror.done():
                    break

            def outcome(f, wait=None):
                if not f.done():
                    return ('pending',)
                if f.cancelled():
                    return ('cancelled',)
                e = f.exception()
                if e is not None:
                    return ('raised', type(e).__name__)
                return ('value', f.result())
            got, got_m = outcome(fut), outcome(mirror)
            if kind == 'value':
                want = want_m = ('value', val)
            elif kind == 'raise':
                want = want_m = ('raised', 'Boom')
            elif kind in ('cancel-self', 'cancel-awaited'):
                want = want_m = ('cancelled',)
            else:
                want = None
                if got[0] != 'value' or not asyncio.isfuture(got[1]):
                    bad.append(f'create_task of a coroutine returning a loop future: {got}')
                # the mirror of a future that resolves to a loop future resolves to the mirror of that one
                if got_m[0] != 'value' or not isinstance(got_m[1], kiwipy.Future):
                    bad.append(f'mirror of a future resolving to a future: {got_m}')
                else:
                    for _ in range(30):
                        await asyncio.sleep(0.002)
                    if outcome(got_m[1]) != ('value', val):
                        bad.append(f'mirror of the inner future ends {outcome(got_m[1])}, expected the value {val!r}')
                continue
            if got != want:
                bad.append(f'create_task of a coroutine that ends with {kind}{"" if val is None and kind != "value" else " " + repr(val)}: the returned '
                           f'future ends {got}, expected {want}')
            if got_m != want_m:
                bad.append(f'communicator-side mirror for a coroutine that ends with {kind}: {got_m}, expected {want_m}')
        return '; '.join(bad[:4]) or None

    return _run(main())


def unwrap_kiwi(doc):
    """unwrap_kiwi_future over chains of depth 1..3, every outcome at every level, every completion order"""
    import itertools
    import kiwipy
    from plumpy import futures

    for depth in (1, 2, 3):
        for level in range(depth):
            for outcome in ('value', 'exception', 'cancel'):
                for order in itertools.permutations(range(depth)):
                    chain = [kiwipy.Future() for _ in range(depth)]
                    out = futures.unwrap_kiwi_future(chain[0])
                    exc = RuntimeError('inner')

                    def complete(i):
                        if i == level:
                            if outcome == 'value':
                                chain[i].set_result('final' if i == depth - 1 else chain[i + 1])
                            elif outcome == 'exception':
                                chain[i].set_exception(exc)
                            else:
                                chain[i].cancel()
                        elif i < level:
                            chain[i].set_result(chain[i + 1])
                    for i in order:
                        if i <= level and not chain[i].done():
                            complete(i)
                    if outcome == 'value' and level < depth - 1:
                        continue  # not yet at the innermost level
                    if not out.done():
                        return f'depth {depth}, {outcome} at level {level}, order {order}: unwrapping future never completed'
                    if outcome == 'cancel' and not out.cancelled():
                        return f'depth {depth}, cancellation at level {level}, order {order}: outer future is not cancelled ({out})'
                    if outcome == 'exception' and (out.cancelled() or out.exception() is not exc):
                        return f'depth {depth}, exception at level {level}, order {order}: outer future does not carry that exception'
                    if outcome == 'value' and (out.cancelled() or out.exception() is not None or out.result() != 'final'):
                        return f'depth {depth}, value at level {level}: outer future wrong'
    return None


# ---------------------------------------------------------------------------------------------------- C14
def persister_history(doc):
    """Both bundled persisters against the abstract map M : (pid, tag) -> snapshot (DESIGN D.5) over fixed mixed
    histories with ids that are string prefixes of one another; listings, loads and deletes compared after every step."""
    import asyncio
    import shutil
    import tempfile
    import plumpy
    from rprocs import Plain as P

    async def main():
        tmp = tempfile.mkdtemp(prefix='pyvc_replay_')
        try:
            for pids in ([1, 12, 120, 2], ['job', 'job2', 'x'],):
                pers = {'mem': plumpy.InMemoryPersister(), 'pickle': plumpy.PicklePersister(tempfile.mkdtemp(dir=tmp))}
                procs = {pid: P(pid=pid) for pid in pids}
                model = {}
                history = [('save', pids[0], None), ('save', pids[1], 'a'), ('save', pids[2], 'b'), ('save', pids[0], 'a'),
                           ('save', pids[1], None), ('delete', pids[0], 'zz'), ('delete', pids[0], 'a'), ('delete', pids[0], 'a'),
                           ('save', pids[-1], 'a'), ('delete_process', pids[0], None), ('delete_process', pids[0], None),
                           ('save', pids[0], 't'), ('delete_process', pids[-1], None),
                           ('save', pids[1], ''), ('save', pids[1], None), ('delete', pids[1], ''), ('save', pids[1], ''),
                           ('advance', pids[1], None), ('save', pids[1], ''), ('delete', pids[1], None),
                           # deleting a checkpoint of a process that has none (never saved / all removed) is a no-op as well
                           ('delete_process', pids[1], None), ('delete', pids[1], 'b'), ('delete', pids[1], None)]
                for op, pid, tag in history:
                    if op == 'advance':
                        procs[pid].set_status('advanced %d' % len(model))   # the live process moves on: a later save must record this
                        continue
                    if op == 'save':
                        model[(pid, tag)] = procs[pid].status
                    elif op == 'delete':
                        model.pop((pid, tag), None)
                    else:
                        for k in [k for k in model if k[0] == pid]:
                            model.pop(k)
                    for name, p in pers.items():
                        try:
                            if op == 'save':
                                p.save_checkpoint(procs[pid], tag)
                            elif op == 'delete':
                                p.delete_checkpoint(pid, tag)
                            else:
                                p.delete_process_checkpoints(pid)
                        except Exception as e:  # noqa
                            return f'{name} persister: {op}({pid!r}, {tag!r}) raised {type(e).__name__}: {e} (stored keys: {sorted(model, key=repr)})'
                        got = sorted(((c.pid, c.tag) for c in p.get_checkpoints()), key=repr)
                        if got != sorted(model, key=repr):
                            return f'{name} persister after {op}({pid!r}, {tag!r}) lists {got}; the stored keys are {sorted(model, key=repr)}'
                        for q in pids:
                            gotq = sorted(((c.pid, c.tag) for c in p.get_process_checkpoints(q)), key=repr)
                            if gotq != sorted((k for k in model if k[0] == q), key=repr):
                                return f'{name} persister after {op}({pid!r}, {tag!r}): checkpoints of {q!r} listed as {gotq}'
                        for (q, t) in [(pids[0], 'a'), (pids[1], 'a'), (pids[0], None)]:
                            try:
                                b = p.load_checkpoint(q, t)
                                ok = (q, t) in model and b is not None
                            except Exception:  # noqa
                                ok = (q, t) not in model
                            if not ok:
                                return f'{name} persister after {op}({pid!r}, {tag!r}): load({q!r}, {t!r}) disagrees with the stored keys'
                        for (q, t), want_status in model.items():
                            got_status = p.load_checkpoint(q, t).get('_status')
                            if got_status != want_status:
                                return (f'{name} persister after {op}({pid!r}, {tag!r}): load({q!r}, {t!r}) returns the snapshot with status '
                                        f'{got_status!r}; the most recent save of that key recorded {want_status!r}')
                # a save that FAILS (the process holds something this persister cannot store) leaves the store as it was: the snapshot
                # saved before under that key is still the one loaded, and the listing still works
                key = sorted(model, key=repr)[0]
                procs[key[0]].set_status(lambda: 'not storable everywhere')
                for name, p in pers.items():
                    try:
                        p.save_checkpoint(procs[key[0]], key[1])
                        continue            # this persister can store it: nothing to check here
                    except Exception:  # noqa
                        pass
                    try:
                        got = sorted(((c.pid, c.tag) for c in p.get_checkpoints()), key=repr)
                        st = p.load_checkpoint(*key).get('_status')
                    except Exception as e:  # noqa
                        return (f'{name} persister: after a save of {key!r} that failed, the store is damaged: {type(e).__name__} on listing / '
                                f'loading the snapshot saved before')
                    if got != sorted(model, key=repr) or st != model[key]:
                        return f'{name} persister: after a save of {key!r} that failed the store lists {got} and loads status {st!r} for that key'
            return None
        finally:
            shutil.rmtree(tmp, ignore_errors=True)

    loop = asyncio.new_event_loop()
    asyncio.set_event_loop(loop)
    return loop.run_until_complete(main())


def persister_snapshot_independent(doc):
    """a checkpoint saved in the in-memory persister must not change when the live process changes afterwards"""
    import asyncio
    import copy
    import plumpy

    async def main():
        from rprocs import CtxProc
        p = CtxProc()
        p.ctx.items = [1, 2]
        pers = plumpy.InMemoryPersister()
        pers.save_checkpoint(p, 'a')
        before = copy.deepcopy(dict(pers.load_checkpoint(p.pid, 'a')))
        p.ctx.items.append(3)
        p.ctx.later = 'x'
        after = dict(pers.load_checkpoint(p.pid, 'a'))
        if before != after:
            return f'stored snapshot changed with the live process: context {before.get("_context")} -> {after.get("_context")}'
        return None

    loop = asyncio.new_event_loop()
    asyncio.set_event_loop(loop)
    return loop.run_until_complete(main())


# ---------------------------------------------------------------------------------------------------- C01
def _run(coro):
    import asyncio
    loop = asyncio.new_event_loop()
    asyncio.set_event_loop(loop)
    try:
        return loop.run_until_complete(asyncio.wait_for(coro, 30))
    finally:
        loop.close()


def cleanups_once(doc):
    """registered cleanups: each runs exactly once when the process terminates (finished, killed before / during a step, excepted),
    also when one of them raises; the process is closed afterwards and nothing escapes"""
    import plumpy
    from rprocs import Plain

    class Boom(plumpy.Process):
        def run(self):
            raise RuntimeError('step failed')

    async def main():
        bad = []
        for how in ('finish', 'kill-created', 'except', 'close-twice'):
            for raising in (None, 0, 1, 2):
                proc = Boom() if how == 'except' else Plain()
                ran = []

                def mk(i):
                    def cleanup():
                        ran.append(i)
                        if i == raising:
                            raise ValueError('cleanup %d failed' % i)
                    return cleanup
                for i in range(3):
                    proc.add_cleanup(mk(i))
                try:
                    if how == 'kill-created':
                        proc.kill('stop')
                    else:
                        await asyncio.wait_for(proc.step_until_terminated(), 10)
                    if how == 'close-twice':
                        proc.close()
                except Exception as e:  # noqa
                    bad.append(f'{how}, cleanup {raising} raising: {type(e).__name__} escaped: {e}')
                    continue
                if sorted(ran) != [0, 1, 2]:
                    bad.append(f'{how}, cleanup {raising} raising: cleanups ran {ran}; expected each of 0, 1, 2 exactly once')
                if not proc._closed:
                    bad.append(f'{how}, cleanup {raising} raising: the process is not closed')
        return '; '.join(bad[:3]) or None

    return _run(main())


def lifecycle_programs(doc):
    """bounded search: small programs whose steps end in each of the commands (plain value, Stop, UnsuccessfulResult, Kill with and
    without a message, Continue, Wait + resume, an exception), with a listener attached: every state entered follows the documented
    lifecycle graph from CREATED, the terminal state is the expected one and nothing is entered after it"""
    import plumpy
    LEGAL = {None: {'CREATED'}, 'CREATED': {'RUNNING', 'KILLED', 'EXCEPTED'},
             'RUNNING': {'RUNNING', 'WAITING', 'FINISHED', 'KILLED', 'EXCEPTED'},
             'WAITING': {'RUNNING', 'WAITING', 'FINISHED', 'KILLED', 'EXCEPTED'}}
    programs = {
        'value': (lambda self: 5, 'FINISHED'),
        'none': (lambda self: None, 'FINISHED'),
        'stop': (lambda self: plumpy.Stop(3, True), 'FINISHED'),
        'unsuccessful': (lambda self: plumpy.UnsuccessfulResult(2), 'FINISHED'),
        'kill-with-message': (lambda self: plumpy.Kill(plumpy.process_comms.MessageBuilder.kill('enough')), 'KILLED'),
        'kill-without-message': (lambda self: plumpy.Kill(), 'KILLED'),
        'continue-then-kill': (lambda self: plumpy.Continue(self.then_kill), 'KILLED'),
        'continue-then-value': (lambda self: plumpy.Continue(self.then_value), 'FINISHED'),
        'wait-then-value': (lambda self: plumpy.Wait(self.then_value), 'FINISHED'),
        'wait-then-kill': (lambda self: plumpy.Wait(self.then_kill), 'KILLED'),
        'raise': (lambda self: (_ for _ in ()).throw(ValueError('step failed')), 'EXCEPTED'),
    }

    class Listener(plumpy.ProcessListener):
        def __init__(self):
            super().__init__()
            self.terminal = []

        def on_process_finished(self, process, outputs):
            self.terminal.append('finished')

        def on_process_killed(self, process, msg):
            self.terminal.append('killed')

        def on_process_excepted(self, process, reason):
            self.terminal.append('excepted')

    async def main():
        bad = []
        for name, (body, want) in programs.items():
            class Prog(plumpy.Process):
                def __init__(self, *a, **k):
                    self.entered = []
                    super().__init__(*a, **k)

                def on_entered(self, from_state):
                    self.entered.append(self.state.name)
                    super().on_entered(from_state)

                def run(self):
                    return body(self)

                def then_kill(self, *args):
                    return plumpy.Kill()

                def then_value(self, *args):
                    return 'done'
            proc = Prog()
            lst = Listener()
            proc.add_process_listener(lst)
            task = asyncio.ensure_future(proc.step_until_terminated())
            await _settle(20)
            if proc.state.name == 'WAITING':
                proc.resume()
                await _settle(30)
            try:
                await asyncio.wait_for(task, 5)
            except Exception as e:  # noqa
                bad.append(f'program {name}: stepping raised {type(e).__name__}: {e}')
            trace = proc.entered
            prev = None
            for st in trace:
                if st not in LEGAL.get(prev, set()):
                    bad.append(f'program {name}: entered {" -> ".join(trace)}: {prev} -> {st} is not an edge of the lifecycle graph')
                    break
                prev = st
            if proc.state.name != want or (trace and trace[-1] != want):
                bad.append(f'program {name}: ended {proc.state.name} (entered {" -> ".join(trace)}); expected {want}')
            if lst.terminal != [want.lower()]:
                bad.append(f'program {name}: terminal notifications {lst.terminal}; expected exactly one: {want.lower()}')
        return '; '.join(bad[:4]) or None

    return _run(main())


def fail_after_termination(doc):
    """history: run a plain process to FINISHED (or kill it), then call fail(exc, None): terminal states must be final"""
    from rprocs import Plain

    async def main():
        bad = []
        p = Plain()
        await p.step_until_terminated()
        before = p.state
        try:
            p.fail(RuntimeError('late'), None)
        except Exception:  # noqa
            pass
        if p.state != before:
            bad.append(f'fail() on a {before.name} process moved it to {p.state.name}')
        q = Plain()
        q.kill('stop')
        before = q.state
        try:
            q.fail(RuntimeError('late'), None)
        except Exception:  # noqa
            pass
        if q.state != before:
            bad.append(f'fail() on a {before.name} process moved it to {q.state.name}')
        return '; '.join(bad)

    return _run(main())


def late_callback_failure(doc):
    """history: a callback scheduled with call_soon raises after the process has FINISHED"""
    import asyncio
    from rprocs import Plain

    async def main():
        p = Plain()
        await p.step_until_terminated()
        before = p.state

        def bad_cb():
            raise RuntimeError('late callback')

        p.call_soon(bad_cb)
        await asyncio.sleep(0.05)
        if p.state != before:
            return f'a failing call_soon callback moved the {before.name} process to {p.state.name}'
        return None

    return _run(main())


# ---------------------------------------------------------------------------------------------------- C18
def process_scope(doc):
    """Process.current() inside a step / continuation / call_soon callback of concurrently running and nested processes,
    and after they return or yield"""
    import asyncio
    import plumpy
    from rprocs import ScopeProc

    async def main():
        bad = []
        gate = asyncio.get_event_loop().create_future()
        a, b = ScopeProc(inputs={'gate': gate}), ScopeProc(inputs={'gate': gate})
        ta = asyncio.ensure_future(a.step_until_terminated())
        tb = asyncio.ensure_future(b.step_until_terminated())
        for _ in range(5):
            await asyncio.sleep(0)
            if plumpy.Process.current() is not None:
                bad.append(f'outside any process code current() is {plumpy.Process.current()}')
        gate.set_result(True)
        await asyncio.wait_for(asyncio.gather(ta, tb), 20)
        for _ in range(5):
            await asyncio.sleep(0)
        for p in (a, b):
            want_points = ['run-before-await', 'run-after-nested', 'run-after-await', 'call_soon', 'continuation', 'call_soon-after-the-last-step']
            if sorted(w for w, _ in p.seen) != sorted(want_points) or p.state.name != 'FINISHED':
                bad.append(f'process {p.pid} ended {p.state.name} having sampled current() at {[w for w, _ in p.seen]}; expected FINISHED and the '
                           f'points {want_points}' + (f' ({p.exception()!r})' if p.state.name == 'EXCEPTED' else ''))
            for where, cur in p.seen:
                if cur is not p:
                    bad.append(f'in {where} of {p.pid} current() was {cur}')
        if plumpy.Process.current() is not None:
            bad.append('stack not unwound after termination')
        return '; '.join(bad[:3])

    plumpy.set_event_loop_policy()        # re-entrant loops: a step runs another process to completion with execute()
    try:
        return _run(main())
    finally:
        plumpy.reset_event_loop_policy()


def hooks_outside_scope(doc):
    """history: sample Process.current() inside the lifecycle hooks of a running process"""
    import plumpy
    from rprocs import HookProc

    async def main():
        p = HookProc()
        await p.step_until_terminated()
        wrong = [w for w, cur in p.seen if cur is not p]
        if wrong:
            return f'Process.current() is not the process inside the hooks {wrong}'
        return None

    return _run(main())


# ---------------------------------------------------------------------------------------------------- C09
def _ref_run(prog, oracle):
    """reference interpreter of the structured program (DESIGN D.2): returns (calls, result)"""
    calls = []
    count = {}

    class Ret(Exception):
        def __init__(self, v):
            self.v = v

    def ask(name):
        calls.append(name)
        i = count.get(name, 0)
        count[name] = i + 1
        vals = oracle.get(name, [])
        return vals[i] if i < len(vals) else (False if name.startswith('p') else None)

    last = [None]

    def run(block):
        for ins in block:
            kind = ins[0]
            if kind == 'call':
                v = ask(ins[1])
                last[0] = v
                if v is not None and not isinstance(v, dict):
                    raise Ret(v)
            elif kind == 'ret':
                raise Ret(ins[1])
            elif kind == 'if':
                for pred, body in ins[1]:
                    if pred is None or ask(pred):
                        run(body)
                        break
            elif kind == 'while':
                while ask(ins[1]):
                    run(ins[2])

    try:
        run(prog)
    except Ret as r:
        return calls, r.v
    return calls, last[0]


def _build(prog, cls):
    from plumpy.workchains import if_, return_, while_
    out = []
    for ins in prog:
        if ins[0] == 'call':
            out.append(getattr(cls, ins[1]))
        elif ins[0] == 'ret':
            out.append(return_ if ins[1] is None else return_(ins[1]))
        elif ins[0] == 'if':
            node = None
            for pred, body in ins[1]:
                if node is None:
                    node = if_(getattr(cls, pred))(*_build(body, cls))
                elif pred is None:
                    node = node.else_(*_build(body, cls))
                else:
                    node = node.elif_(getattr(cls, pred))(*_build(body, cls))
            out.append(node)
        elif ins[0] == 'while':
            out.append(while_(getattr(cls, ins[1]))(*_build(ins[2], cls)))
    return out


def outline_semantics(doc):
    """bounded search: small outlines x predicate/step oracles, real WorkChain vs the reference interpreter"""
    import itertools
    from rprocs import make_chain

    C = lambda n: ('call', n)
    progs = [
        [C('s0'), ('if', [('p0', [C('s1')]), ('p1', [C('s2')]), (None, [C('s3')])]), C('s0')],
        [('while', 'p0', [C('s0'), ('if', [('p1', [C('s1'), ('ret', 7)])]), C('s2')]), C('s3')],
        [C('s0'), ('if', [('p0', [('ret', None)])]), ('while', 'p1', [C('s1')]), ('ret', 3), C('s2')],
        [('if', [('p0', [C('s0'), C('s1')])]), ('if', [('p1', [C('s2')]), ('p2', [C('s3')])])],
        [C('s0'), C('s1')],
    ]
    oracles = []
    for bits in itertools.product([False, True], repeat=3):
        oracles.append({'p0': [bits[0], False], 'p1': [bits[1], bits[0], False], 'p2': [bits[2]]})
    oracles.append({'p0': [True, True, False], 'p1': [False, True], 's0': [None, None], 's1': [5]})
    oracles.append({'p0': [True], 'p1': [True, True, False], 's1': [None, 'stop']})
    oracles.append({'s0': [{}], 'p0': [True], 'p1': [False]})

    async def main():
        for prog in progs:
            for oracle in oracles:
                cls = make_chain(lambda c, prog=prog: _build(prog, c), oracle)
                wc = cls()
                await wc.step_until_terminated()
                want_calls, want_res = _ref_run(prog, oracle)
                got_res = wc.result() if wc.state.name == 'FINISHED' else ('<%s>' % wc.state.name)
                if list(cls.log) != want_calls or got_res != want_res:
                    return (f'outline {prog} with oracle {oracle}: calls {list(cls.log)} result {got_res!r}; '
                            f'the structured program gives calls {want_calls} result {want_res!r}')
        return await _value_beats_awaitables()

    return _run(main())


async def _value_beats_awaitables():
    """a step's plain value stops the chain at once, even when the step also handed something to the context"""
    import plumpy
    from plumpy.workchains import WorkChain
    log = []

    class W(WorkChain):
        @classmethod
        def define(cls, spec):
            super().define(spec)
            spec.outline(cls.a, cls.b)

        def a(self):
            fut = plumpy.Future()
            fut.set_result(1)
            self.to_context(x=fut)
            log.append('a')
            return 5

        def b(self):
            log.append('b')

    wc = W()
    try:
        await asyncio.wait_for(wc.step_until_terminated(), 10)
    except asyncio.TimeoutError:
        return 'a step returning the plain value 5 after to_context(): the chain did not terminate'
    if log != ['a'] or wc.state.name != 'FINISHED' or wc.result() != 5:
        return (f'a step returning the plain value 5 after to_context(): steps run {log}, state {wc.state.name}, '
                f'result {wc.result() if wc.state.name == "FINISHED" else None!r}; expected steps [a], FINISHED, 5')
    return None


def return_instruction(doc):
    """return_(code) must denote a new instruction and leave the shared `return_` singleton alone"""
    from plumpy.workchains import return_
    a = return_(301)
    b = return_(302)
    bad = []
    if a is b or a is return_:
        bad.append('return_(code) returned a shared object')
    if a._exit_code != 301 or b._exit_code != 302 or return_._exit_code is not None:
        bad.append(f'exit codes: return_(301)->{a._exit_code}, return_(302)->{b._exit_code}, return_->{return_._exit_code}')
    return '; '.join(bad)


# ---------------------------------------------------------------------------------------------------- C17
def _launcher_world():
    """recording stand-ins for everything the launcher orchestrates (duck-typed; no plumpy process involved)"""
    import plumpy
    from plumpy import loaders, persistence
    log = []

    class Fut:
        def __init__(self, proc):
            self.proc = proc

        def result(self):
            log.append(('future.result', self.proc.pid))
            if self.proc.fail:
                raise RuntimeError('process failed')
            return {'out': self.proc.pid}

    class Proc:
        counter = [100]

        def __init__(self, *args, **kwargs):
            Proc.counter[0] += 1
            self.pid = Proc.counter[0]
            self.fail = kwargs.get('fail', False)
            self.done = False
            log.append(('new', args, dict(kwargs)))

        async def step_until_terminated(self):
            log.append(('step', self.pid))
            await asyncio.sleep(0)
            self.done = True
            log.append(('stepped', self.pid))

        def future(self):
            log.append(('future', self.pid, self.done))
            return Fut(self)

    class Bundle_:
        def __init__(self, pid, tag):
            self.key = (pid, tag)

        def unbundle(self, ctx=None):
            log.append(('unbundle', self.key, ctx))
            p = Proc.__new__(Proc)
            p.pid, p.fail, p.done = self.key[0], False, False
            return p

    class Pers(persistence.Persister):
        def save_checkpoint(self, process, tag=None):
            log.append(('save', process.pid, tag))

        missing = {}      # tag -> exception class raised for it (a checkpoint that does not exist)

        def load_checkpoint(self, pid, tag=None):
            log.append(('load', pid, tag))
            if tag in Pers.missing:
                raise Pers.missing[tag](f'no checkpoint {tag!r} of {pid}')
            return Bundle_(pid, tag)

        def get_checkpoints(self):
            return []

        def get_process_checkpoints(self, pid):
            return []

        def delete_checkpoint(self, pid, tag=None):
            pass

        def delete_process_checkpoints(self, pid):
            pass

    class Loader(loaders.ObjectLoader):
        def load_object(self, identifier):
            log.append(('load_object', identifier))
            if identifier != 'the-proc':
                raise ValueError(identifier)
            return Proc

        def identify_object(self, obj):
            return 'the-proc'

    return log, Proc, Pers, Loader


def launcher_tasks(doc):
    """every task x flag combination against stand-ins that log what the launcher does to them"""
    import itertools
    import kiwipy
    from plumpy import persistence, process_comms

    async def main():
        bad = []
        for persist, nowait, with_pers, args, kwargs, use_call in itertools.product(
                [False, True], [False, True], [False, True], [None, (1, 2)], [None, {'k': 3}], [False, True]):
            # ---- launch and create
            for kind in ('launch', 'create'):
                log, Proc, Pers, Loader = _launcher_world()
                loader = Loader()
                pers = Pers() if with_pers else None
                launcher = process_comms.ProcessLauncher(persister=pers, loader=loader)
                kw = {'process_class': 'the-proc', 'persist': persist}
                if args is not None:
                    kw['init_args'] = args
                if kwargs is not None:
                    kw['init_kwargs'] = kwargs
                if kind == 'launch':
                    kw['nowait'] = nowait
                try:
                    if use_call:
                        reply = await launcher(None, {'task': kind, 'args': kw})
                    elif kind == 'launch':
                        reply = await launcher._launch(None, **kw)
                    else:
                        reply = await launcher._create(None, **kw)
                    outcome = ('ok', reply)
                except kiwipy.TaskRejected:
                    outcome = ('rejected',)
                at_return = list(log)
                await asyncio.sleep(0.01)
                pid = Proc.counter[0]
                if persist and not with_pers:
                    want_out, want_log = ('rejected',), []
                else:
                    want_log = [('load_object', 'the-proc'), ('new', tuple(args or ()), dict(kwargs or {}))]
                    if persist:
                        want_log.append(('save', pid, None))
                    if kind == 'create':
                        want_out = ('ok', pid)
                    elif nowait:
                        want_out = ('ok', pid)
                    else:
                        want_log += [('step', pid), ('stepped', pid), ('future', pid, True), ('future.result', pid)]
                        want_out = ('ok', {'out': pid})
                if outcome != want_out or at_return != want_log:
                    bad.append(f'{kind}(persist={persist}, nowait={nowait}, persister={with_pers}, args={args}, kwargs={kwargs}, '
                               f'via __call__={use_call}): outcome {outcome}, did {at_return}; expected {want_out}, {want_log}')
                if kind == 'launch' and nowait and want_out != ('rejected',) and ('stepped', pid) not in log:
                    bad.append(f'launch(nowait=True): the process was never run after the reply: {log}')
                if kind == 'create' and any(e[0] == 'step' for e in log):
                    bad.append(f'create ran the process: {log}')
            if len(bad) > 3:
                break
        # ---- continue
        for nowait, with_pers, tag, use_call, with_ctx in itertools.product([False, True], [False, True], [None, 'T'], [False, True],
                                                                         [False, True]):
            log, Proc, Pers, Loader = _launcher_world()
            loader = Loader()
            ctx = persistence.LoadSaveContext(marker=1) if with_ctx else None
            launcher = process_comms.ProcessLauncher(persister=Pers() if with_pers else None, loader=loader, load_context=ctx)
            kw = {'pid': 7, 'nowait': nowait}
            if tag is not None:
                kw['tag'] = tag
            try:
                if use_call:
                    reply = await launcher(None, {'task': 'continue', 'args': kw})
                else:
                    reply = await launcher._continue(None, **kw)
                outcome = ('ok', reply)
            except kiwipy.TaskRejected:
                outcome = ('rejected',)
            at_return = [e if e[0] != 'unbundle' else ('unbundle', e[1], getattr(e[2], 'loader', None) is loader,
                                                       (e[2] is not None and 'marker' in e[2]) == with_ctx) for e in log]
            await asyncio.sleep(0.01)
            if not with_pers:
                want_out, want_log = ('rejected',), []
            else:
                want_log = [('load', 7, tag), ('unbundle', (7, tag), True, True)]
                if nowait:
                    want_out = ('ok', 7)
                else:
                    want_log += [('step', 7), ('stepped', 7), ('future', 7, True), ('future.result', 7)]
                    want_out = ('ok', {'out': 7})
            if outcome != want_out or at_return != want_log:
                bad.append(f'continue(nowait={nowait}, persister={with_pers}, tag={tag}, via __call__={use_call}, context given={with_ctx}): '
                           f'outcome {outcome}, did {at_return} (unbundle: key, context carries the configured loader, keeps the '
                           f'given context values); expected {want_out}, {want_log}')
        # ---- continue from a checkpoint that does not exist: the task fails with that error; exactly the requested checkpoint was
        #      asked for and nothing is run
        for nowait, tag, err, use_call in itertools.product([False, True], [None, 'T'], [KeyError, FileNotFoundError], [False, True]):
            log, Proc, Pers, Loader = _launcher_world()
            Pers.missing = {tag: err}
            launcher = process_comms.ProcessLauncher(persister=Pers(), loader=Loader())
            kw = {'pid': 7, 'nowait': nowait}
            if tag is not None:
                kw['tag'] = tag
            try:
                if use_call:
                    reply = await launcher(None, {'task': 'continue', 'args': kw})
                else:
                    reply = await launcher._continue(None, **kw)
                outcome = ('ok', reply)
            except err:
                outcome = ('error',)
            except Exception as e:  # noqa
                outcome = ('other', type(e).__name__)
            await asyncio.sleep(0.01)
            if outcome != ('error',) or log != [('load', 7, tag)]:
                bad.append(f'continue(tag={tag}, nowait={nowait}) of a checkpoint that does not exist ({err.__name__}): outcome {outcome}, '
                           f"did {log}; expected the persister's error and nothing loaded or run beyond the request for ({7}, {tag})")
        # ---- unknown task type
        log, Proc, Pers, Loader = _launcher_world()
        launcher = process_comms.ProcessLauncher(persister=Pers(), loader=Loader())
        try:
            await launcher(None, {'task': 'restart', 'args': {'pid': 1, 'nowait': True}})
            bad.append('an unknown task type was accepted')
        except kiwipy.TaskRejected:
            if log:
                bad.append(f'an unknown task type was rejected after doing {log}')
        # ---- failure of the process is the reply
        log, Proc, Pers, Loader = _launcher_world()
        launcher = process_comms.ProcessLauncher(loader=Loader())
        try:
            reply = await launcher._launch(None, 'the-proc', False, False, init_kwargs={'fail': True})
            bad.append(f'a failed process replied {reply!r} instead of its error')
        except RuntimeError:
            pass
        return '; '.join(bad[:4]) or None

    return _run(main())


def launcher_bodies(doc):
    """the body builders against the handlers' keyword signatures"""
    import inspect
    from plumpy import process_comms
    log, Proc, Pers, Loader = _launcher_world()
    loader = Loader()
    bad = []
    sig = lambda f: [p for p in inspect.signature(f).parameters][1:]
    b = process_comms.create_launch_body(Proc, init_args=(1,), init_kwargs={'a': 2}, persist=True, loader=loader, nowait=False)
    if b != {'task': 'launch', 'args': {'process_class': 'the-proc', 'persist': True, 'nowait': False, 'init_args': (1,),
                                         'init_kwargs': {'a': 2}}}:
        bad.append(f'launch body {b}')
    if not set(b.get('args', {})) <= set(sig(process_comms.ProcessLauncher._launch)):
        bad.append('launch body has keys _launch does not take')
    b = process_comms.create_create_body(Proc, init_args=(1,), init_kwargs={'a': 2}, persist=True, loader=loader)
    if b != {'task': 'create', 'args': {'process_class': 'the-proc', 'persist': True, 'init_args': (1,), 'init_kwargs': {'a': 2}}}:
        bad.append(f'create body {b}')
    b = process_comms.create_continue_body(5, tag='t', nowait=True)
    if b != {'task': 'continue', 'args': {'pid': 5, 'nowait': True, 'tag': 't'}}:
        bad.append(f'continue body {b}')
    return '; '.join(bad) or None


# ---------------------------------------------------------------------------------------------------- C19 / C07 members
def _savable_classes():
    import plumpy
    from plumpy import persistence

    @persistence.auto_persist('plain', 'nested', 'meth', 'tup')
    class Outer(persistence.Savable):
        def __init__(self, inner):
            self.plain = {'a': [1, 2, {'b': 3}]}
            self.tup = ([1, 2], 'x')
            self.nested = inner
            self.meth = self.hello
            self.unsaved = 'nope'

        def hello(self):
            return 'hello from %s' % id(self)

    @persistence.auto_persist('value')
    class Inner(persistence.Savable):
        def __init__(self, value):
            self.value = value

    for k in (Outer, Inner):
        k.__qualname__ = k.__name__
        k.__module__ = __name__
        globals()[k.__name__] = k       # so that the default object loader can identify / load them
    return Outer, Inner


def savable_members(doc):
    """save_members / load_members / Savable.load on small object graphs: records, copies at save time, rebinding,
    nested recreation through the loader, untouched other keys, missing class name"""
    import plumpy
    from plumpy import loaders, persistence
    Outer, Inner = _savable_classes()
    bad = []

    class Loader(loaders.ObjectLoader):
        used = []

        def load_object(self, identifier):
            Loader.used.append(identifier)
            return {'Outer': Outer, 'Inner': Inner}[identifier.rsplit(':', 1)[-1]]

        def identify_object(self, obj):
            return obj.__name__

    Loader.__qualname__ = 'Loader'
    Loader.__module__ = __name__
    globals()['Loader'] = Loader
    loader = Loader()
    ctx = persistence.LoadSaveContext(loader=loader)
    inner = Inner([10, 20])
    outer = Outer(inner)
    out_state = {'other': 'kept'}
    outer.save_members(['plain', 'nested', 'meth', 'tup'], out_state)
    types_ = out_state.get('!!meta', {}).get('types', {})
    if out_state.get('other') != 'kept':
        bad.append('save_members touched an unrelated key')
    if out_state.get('plain') != outer.plain or out_state.get('plain') is outer.plain:
        bad.append('a plain member is not recorded as an equal copy')
    outer.plain['a'][2]['b'] = 99
    outer.tup[0].append(3)
    if out_state['plain']['a'][2]['b'] != 3:
        bad.append('a later mutation of the original shows in the saved state (dict member)')
    if out_state.get('tup') != ([1, 2], 'x'):
        bad.append(f"a later mutation of the original shows in the saved state (tuple member): {out_state.get('tup')}")
    if out_state.get('meth') != 'hello' or types_.get('meth') != 'm':
        bad.append(f"a bound method is not recorded by name: {out_state.get('meth')!r} {types_.get('meth')!r}")
    if types_.get('nested') != 'S' or not isinstance(out_state.get('nested'), dict) or out_state['nested'].get('value') != [10, 20]:
        bad.append('a nested Savable is not recorded as its own saved state')
    if 'unsaved' in out_state:
        bad.append('an undeclared attribute was saved')
    # ---- whole round trip through the named loader
    saved = outer.save(ctx)
    Loader.used.clear()
    loaded = persistence.Savable.load(saved, ctx)
    if type(loaded) is not Outer or 'Outer' not in Loader.used:
        bad.append(f'the class was not resolved through the given loader: {type(loaded).__name__}, loader saw {Loader.used}')
    else:
        if loaded.plain != outer.plain or loaded.tup != outer.tup:
            bad.append('plain members differ after the round trip')
        if getattr(loaded.meth, '__self__', None) is not loaded or loaded.meth.__name__ != 'hello':
            bad.append('a bound method was not rebound to the new object')
        if type(loaded.nested) is not Inner or loaded.nested.value != [10, 20] or loaded.nested is inner:
            bad.append('the nested Savable was not recreated')
        if hasattr(loaded, 'unsaved'):
            bad.append('an undeclared attribute was restored')
    # ---- the same, with the loader class recorded in the saved state only
    # ---- missing class name / missing member
    try:
        persistence.Savable.load({'plain': 1}, ctx)
        bad.append('a saved state without a class name produced an object')
    except ValueError:
        pass
    broken = dict(saved)
    del broken['plain']
    try:
        persistence.Savable.load(broken, ctx)
        bad.append('a saved state missing a declared member produced an object')
    except KeyError:
        pass
    # ---- recreate_from with NO loader in the context: the loader class recorded in the saved state decides (also for nested members)
    Loader.used.clear()
    try:
        again = Outer.recreate_from(saved)
        if type(again.nested) is not Inner or not any('Inner' in u for u in Loader.used):
            bad.append(f'Outer.recreate_from(saved_state): the loader recorded in the saved state was not used for the nested member (loader saw {Loader.used})')
    except Exception as e:  # noqa
        bad.append(f'Outer.recreate_from(saved_state) with the recorded loader raised {type(e).__name__}: {e}')
    # ---- one load context WITHOUT a loader reused for several loads (ProcessLauncher keeps one): each state is loaded through the
    #      loader recorded in IT; the shared context is not pinned to the first one
    shared = persistence.LoadSaveContext(marker=1)
    Loader.used.clear()
    try:
        first = persistence.Savable.load(saved, shared)                  # `saved` records Loader
        plain_state = Inner([1]).save()                                  # records no loader: the default one resolves it
        if shared.loader is not None:
            bad.append(f'after loading one state the shared load context is pinned to its loader ({type(shared.loader).__name__})')
        n_before = len(Loader.used)
        second = persistence.Savable.load(plain_state, shared)
        if len(Loader.used) != n_before:
            bad.append('a state that records no loader was resolved through the loader recorded in a state loaded EARLIER with the same context')
    except Exception as e:  # noqa
        bad.append(f'two loads through one shared context raised {type(e).__name__}: {e}')
    # ---- a per-save custom loader with its OWN identifier scheme: nested Savables are saved through it as well, so that what it saved
    #      it can load
    class Strict(loaders.ObjectLoader):
        def identify_object(self, obj):
            return 'strict!' + loaders.get_object_loader().identify_object(obj)

        def load_object(self, identifier):
            if not identifier.startswith('strict!'):
                raise ValueError(f'Strict loader cannot load the foreign identifier {identifier!r}')
            return loaders.get_object_loader().load_object(identifier[len('strict!'):])
    Strict.__qualname__ = 'Strict'
    Strict.__module__ = __name__
    globals()['Strict'] = Strict
    try:
        sctx = persistence.LoadSaveContext(loader=Strict())
        st_ = Outer(Inner([7])).save(sctx)
        back = persistence.Savable.load(st_, persistence.LoadSaveContext(loader=Strict()))
        if type(back).__name__ != 'Outer' or type(back.nested).__name__ != 'Inner' or back.nested.value != [7]:
            bad.append(f'round trip through a strict per-save loader: got {type(back).__name__} / {type(back.nested).__name__}')
        again = Outer.recreate_from(st_)          # the loader recorded in the state (no loader in the context)
        if type(again.nested).__name__ != 'Inner':
            bad.append('recreate_from with the recorded strict loader: the nested member is a ' + type(again.nested).__name__)
    except Exception as e:  # noqa
        bad.append(f'an object with a nested Savable saved with a per-save custom loader (own identifier scheme) cannot be loaded through '
                   f'that loader: {type(e).__name__}: {e}')
    # ---- futures: restored pending, resolved (falsy results too), failed or cancelled as they were -- on their own and as members
    import asyncio as _aio
    _loop = _aio.new_event_loop()
    _aio.set_event_loop(_loop)
    try:
        def fut_state(f):
            if not f.done():
                return ('pending',)
            if f.cancelled():
                return ('cancelled',)
            if f.exception() is not None:
                return ('failed', type(f.exception()).__name__, f.exception().args)
            return ('result', f.result())

        def make(kind):
            f = persistence.SavableFuture(loop=_loop)
            if kind == 'result':
                f.set_result({'v': [1, 2]})
            elif kind == 'falsy':
                f.set_result(0)
            elif kind == 'none':
                f.set_result(None)
            elif kind == 'failed':
                f.set_exception(ValueError('boom', 3))
            elif kind == 'cancelled':
                f.cancel()
            return f

        @persistence.auto_persist('fut', 'plain')
        class Holder(persistence.Savable):
            def __init__(self, fut):
                self.fut, self.plain = fut, 'p'
        Holder.__qualname__ = 'Holder'
        Holder.__module__ = __name__
        globals()['Holder'] = Holder
        for kind in ('pending', 'result', 'falsy', 'none', 'failed', 'cancelled'):
            for wrapped in (False, True):
                f = make(kind)
                what = f'a {kind} SavableFuture' + (' held as a member' if wrapped else '')
                try:
                    obj = Holder(f) if wrapped else f
                    st_ = obj.save()
                    back = persistence.Savable.load(st_, persistence.LoadSaveContext(loop=_loop))
                    got = fut_state(back.fut if wrapped else back)
                except BaseException as e:  # noqa  (CancelledError is not an Exception)
                    bad.append(f'{what}: save/load raised {type(e).__name__}: {e}')
                    continue
                if got != fut_state(f):
                    bad.append(f'{what}: restored as {got}, it was {fut_state(f)}')
    finally:
        _loop.close()
        _aio.set_event_loop(None)
    # ---- members declared lazily in the persist() hook: also when an instance of the PARENT class was saved before
    class LazyBase(persistence.Savable):
        @classmethod
        def persist(cls):
            cls.auto_persist('a')

        def __init__(self):
            self.a, self.b = 1, 2

    class LazyChild(LazyBase):
        @classmethod
        def persist(cls):
            super().persist()
            cls.auto_persist('b')
    for k in (LazyBase, LazyChild):
        k.__qualname__ = k.__name__
        k.__module__ = __name__
        globals()[k.__name__] = k
    LazyBase().save()
    child_state = LazyChild().save()
    if child_state.get('a') != 1 or child_state.get('b') != 2:
        bad.append(f"a subclass declaring members in persist() after a parent instance was saved: saved state {dict((k, v) for k, v in child_state.items() if k != '!!meta')}, expected a=1, b=2")
    # ---- methods of other objects are refused
    other = Outer(inner)
    outer.meth = other.hello
    try:
        outer.save_members(['meth'], {})
        bad.append('a method bound to another object was saved')
    except TypeError:
        pass
    return '; '.join(bad) or None


def auto_persist_members(doc):
    """bounded search over small class hierarchies: which members each class declares after decorators / classmethod calls"""
    import itertools
    from plumpy import persistence
    bad = []
    names = ['a', 'b', 'c']
    for base_members, extra_call, sub_members, sub2_members in itertools.product(
            [(), ('a',), ('a', 'b')], [(), ('x',)], [(), ('c',), ('a', 'c')], [None, ('d',)]):
        class Base(persistence.Savable):
            pass
        if base_members:
            Base = persistence.auto_persist(*base_members)(Base)
        if extra_call:
            Base.auto_persist(*extra_call)
        base_before = set(Base._auto_persist) if Base._auto_persist is not None else None

        class Sub(Base):
            pass
        Sub = persistence.auto_persist(*sub_members)(Sub)
        want = set(base_members) | set(extra_call) | set(sub_members)
        if sub2_members is not None:
            Sub = persistence.auto_persist(*sub2_members)(Sub)
            want |= set(sub2_members)
        got = set(Sub._auto_persist)
        if got != want:
            bad.append(f'base declares {base_members}+{extra_call}, subclass decorated with {sub_members} then {sub2_members}: '
                       f'subclass members {sorted(got)}, expected {sorted(want)}')
        now = set(Base._auto_persist) if Base._auto_persist is not None else None
        if now != base_before:
            bad.append(f'decorating the subclass changed the base class members: {base_before} -> {now}')
        if Base._auto_persist is not None and Sub._auto_persist is Base._auto_persist:
            bad.append('subclass and base share one member set')
        # a member declared through the classmethod on a subclass WITHOUT a decorator of its own (what a persist() hook does)
        # belongs to that subclass only: the base class and a sibling keep their members
        class Lazy(Base):
            pass

        class Sibling(Base):
            pass
        Lazy.auto_persist('lazy_only')
        now = set(Base._auto_persist) if Base._auto_persist is not None else None
        sib = set(Sibling._auto_persist) if Sibling._auto_persist is not None else None
        if now != base_before or sib != base_before:
            bad.append(f'base declares {base_members}+{extra_call}: a member declared with the classmethod on an undecorated subclass shows in '
                       f'the base class ({base_before} -> {now}) / in a sibling ({sib})')
        if set(Lazy._auto_persist) != (base_before or set()) | {'lazy_only'}:
            bad.append(f'base declares {base_members}+{extra_call}: the undecorated subclass has members {sorted(Lazy._auto_persist)}')
    # multiple inheritance: members of all decorated bases that the MRO resolves first are kept by copy
    return '; '.join(bad[:3]) or None


# ---------------------------------------------------------------------------------------------------- C08
def checkpoint_resume(doc):
    """bounded search: small outlines x oracles x every single crash point (and some pairs): checkpoint at a step boundary,
    abandon the instance, load the checkpoint and continue -- calls and result must be those of the uninterrupted run"""
    import itertools
    import plumpy
    import rprocs
    from rprocs import make_chain

    C = lambda n: ('call', n)
    progs = [
        [C('s0'), ('if', [('p0', [C('s1')]), ('p1', [C('s2'), C('s3'), C('s0')]), (None, [C('s3'), C('s1')])]), C('s0')],
        [('while', 'p0', [C('s0'), ('if', [('p1', [C('s1'), ('ret', 7)])]), C('s2')]), C('s3')],
        [C('s0'), ('if', [('p0', [('ret', None)])]), ('while', 'p1', [C('s1'), C('s2')]), ('ret', 3), C('s2')],
        [('if', [('p0', [C('s0'), C('s1')])]), ('if', [('p1', [C('s2')]), ('p2', [C('s3'), C('s0'), C('s1')])])],
    ]
    oracles = []
    for bits in itertools.product([False, True], repeat=3):
        oracles.append({'p0': [bits[0], False], 'p1': [bits[1], bits[0], False], 'p2': [bits[2]]})
    oracles.append({'p0': [True, True, False], 'p1': [False, True], 's0': [None, None], 's1': [5]})

    async def run(cls, crashes):
        cls.log.clear()
        proc = cls()
        n = 0
        while not proc.has_terminated():
            if n in crashes:
                bundle = plumpy.Bundle(proc)
                proc = bundle.unbundle()
            await asyncio.wait_for(proc.step(), 10)
            n += 1
            if n > 200:
                return list(cls.log), '<does not terminate>', n
        res = proc.result() if proc.state.name == 'FINISHED' else '<%s: %r>' % (proc.state.name, proc.exception() if proc.state.name == 'EXCEPTED' else None)
        return list(cls.log), res, n

    async def main():
        k = 0
        for prog in progs:
            for oracle in oracles:
                k += 1
                cls = make_chain(lambda c, prog=prog: _build(prog, c), oracle)
                cls.__name__ = cls.__qualname__ = 'Chain%d' % k
                cls.__module__ = 'rprocs'
                setattr(rprocs, cls.__name__, cls)
                want_calls, want_res, nsteps = await run(cls, ())
                ref_calls, ref_res = _ref_run(prog, oracle)
                if want_calls != ref_calls or want_res != ref_res:
                    continue   # the uninterrupted run itself is C09's subject
                points = [(i,) for i in range(nsteps)] + [(i, i + 1) for i in range(0, nsteps - 1, 2)]
                if doc.get('tier') == 'thorough':
                    points = [c for r in (1, 2, 3) for c in itertools.combinations(range(nsteps), r)]
                for crashes in points:
                    try:
                        got_calls, got_res, _ = await run(cls, crashes)
                    except Exception as e:  # noqa
                        return f'outline {prog} with oracle {oracle}: resuming from the checkpoint before step {crashes} fails: {type(e).__name__}: {e}'
                    if got_calls != want_calls or got_res != want_res:
                        return (f'outline {prog} with oracle {oracle}: checkpoint+restore before step(s) {crashes} gives calls {got_calls} '
                                f'result {got_res!r}; uninterrupted: calls {want_calls} result {want_res!r}')
        return await plain_process_resume()

    async def resume_twice():
        """the SAME stored checkpoint resumed twice in a row (the first resumed run mutates its context in place): both runs are
        the uninterrupted one; for the in-memory and the pickle persister"""
        import shutil
        import tempfile
        from plumpy.workchains import WorkChain

        class TW(WorkChain):
            @classmethod
            def define(cls, spec):
                super().define(spec)
                spec.outline(cls.a, cls.b, cls.c)

            def a(self):
                self.ctx.trace = ['a']
                self.ctx.nested = {'seen': []}

            def b(self):
                self.ctx.trace.append('b')
                self.ctx.nested['seen'].append('b')

            def c(self):
                self.ctx.trace.append('c')
        TW.__qualname__ = TW.__name__ = 'TwiceW'
        TW.__module__ = 'rprocs'
        setattr(rprocs, 'TwiceW', TW)
        tmp = tempfile.mkdtemp(prefix='pyvc_replay_')
        try:
            for name, pers in (('in-memory', plumpy.InMemoryPersister()), ('pickle', plumpy.PicklePersister(tmp))):
                for nsteps in (1, 2, 3):
                    w = TW()
                    for _ in range(nsteps):
                        await w.step()
                    pers.save_checkpoint(w)
                    ref = TW()
                    await asyncio.wait_for(ref.step_until_terminated(), 10)
                    want = (list(ref.ctx.trace), dict(ref.ctx.nested))
                    for attempt in (1, 2, 3):
                        l = pers.load_checkpoint(w.pid).unbundle()
                        await asyncio.wait_for(l.step_until_terminated(), 10)
                        got = (list(l.ctx.trace), dict(l.ctx.nested))
                        if got != want:
                            return (f'{name} persister: checkpoint taken after {nsteps} steps, resumed for the {attempt}. time: context {got}; '
                                    f'the uninterrupted run ends with {want}')
        finally:
            shutil.rmtree(tmp, ignore_errors=True)
        return None

    async def plain_process_resume():
        """a plain process (Wait / Continue continuations with arguments, steps reading inputs and writing outputs), with and
        without inputs; the external resume values are replayed after each restore"""
        class P(plumpy.Process):
            @classmethod
            def define(cls, spec):
                super().define(spec)
                spec.inputs.dynamic = True
                spec.outputs.dynamic = True

            def run(self):
                self.out('trace0', 'run')
                return plumpy.Wait(self.second, msg='w1')

            def second(self, value=None):
                self.out('trace1', ('second', value, self.inputs.get('scale', 2)))
                return plumpy.Continue(self.third, 3, k=4)

            def third(self, a, k=None):
                self.out('trace2', ('third', a, k, dict(self.inputs)))
                return plumpy.Wait(self.fourth)

            def fourth(self, value=None):
                self.out('trace3', ('fourth', value))
                return a_result(self)

        def a_result(proc):
            return sorted(proc.outputs)

        P.__qualname__ = P.__name__ = 'ResumeP'
        P.__module__ = 'rprocs'
        setattr(rprocs, 'ResumeP', P)

        async def run_p(inputs, crashes):
            proc = P(inputs=dict(inputs)) if inputs is not None else P()
            n = 0
            nres = 0
            while not proc.has_terminated():
                if n in crashes:
                    proc = plumpy.Bundle(proc).unbundle()
                if proc.state.name == 'WAITING':
                    nres += 1
                    proc.resume('r%d' % nres)
                await asyncio.wait_for(proc.step(), 10)
                n += 1
                if n > 50:
                    return '<does not terminate>', None, n
            if proc.state.name != 'FINISHED':
                return '<%s: %r>' % (proc.state.name, proc.exception() if proc.state.name == 'EXCEPTED' else None), dict(proc.outputs), n
            return proc.result(), dict(proc.outputs), n

        r = await resume_twice()
        if r:
            return r
        for inputs in (None, {}, {'scale': 5, 'other': [1]}):
            want_res, want_out, nsteps = await run_p(inputs, ())
            for crashes in [(i,) for i in range(nsteps)] + [(i, i + 1) for i in range(nsteps - 1)]:
                try:
                    got_res, got_out, _ = await run_p(inputs, crashes)
                except Exception as e:  # noqa
                    return f'process with inputs {inputs}: resuming from the checkpoint before step {crashes} fails: {type(e).__name__}: {e}'
                if got_res != want_res or got_out != want_out:
                    return (f'process with inputs {inputs}: checkpoint+restore before step(s) {crashes} gives result {got_res!r} outputs '
                            f'{got_out}; uninterrupted: result {want_res!r} outputs {want_out}')
        return None

    return _run(main())


# ---------------------------------------------------------------------------------------------------- C07
def bundle_roundtrip(doc):
    """bounded search: processes and workchains stopped in every kind of state (created, running/waiting mid-way, paused,
    finished, excepted, killed): save -> load -> save again gives the same bundle, and the loaded process reports the same
    observable facts; through an in-memory copy, pickle and YAML"""
    import copy
    import pickle
    import plumpy
    import rprocs
    import yaml
    from plumpy import persistence

    def observe(p):
        o = {'pid': p.pid, 'state': p.state.name, 'raw_inputs': dict(p.raw_inputs) if p.raw_inputs is not None else None,
             'inputs': dict(p.inputs) if p.inputs is not None else None, 'outputs': dict(p.outputs), 'status': p.status,
             'paused': p.paused, 'creation_time': p.creation_time}
        if hasattr(p, 'ctx'):
            o['ctx'] = {k: v for k, v in p.ctx.__dict__.items()} if hasattr(p.ctx, '__dict__') else dict(p.ctx)
        if p.has_terminated():
            if p.state.name == 'FINISHED':
                o['outcome'] = ('finished', p.result(), p.is_successful)
            elif p.state.name == 'KILLED':
                o['outcome'] = ('killed', p.killed_msg())
            else:
                o['outcome'] = ('excepted', type(p.exception()).__name__, str(p.exception()))
        return o

    def norm(b):
        b = copy.deepcopy(dict(b))

        def strip(d):
            # exception objects have no value equality: compare them by class and arguments
            if isinstance(d, dict):
                d.pop('traceback', None)
                for k, v in list(d.items()):
                    if isinstance(v, BaseException):
                        d[k] = ('<exception>', type(v).__name__, v.args)
                    else:
                        strip(v)
            elif isinstance(d, (list, tuple)):
                for v in d:
                    strip(v)
        strip(b)
        return b

    class Plain(plumpy.Process):
        @classmethod
        def define(cls, spec):
            super().define(spec)
            spec.input('a', default=5)
            spec.inputs.dynamic = True
            spec.outputs.dynamic = True

        def run(self):
            self.out('first', 1)
            return plumpy.Wait(self.after, msg='waiting for x', data={'k': 1})

        def after(self, value=None):
            self.out('second', value)
            if self.inputs.get('boom'):
                raise RuntimeError('boom')
            return plumpy.Continue(self.last, 7, kw=8)

        def last(self, x, kw=None):
            self.out('third', (x, kw))
            return 42

    class Chain(plumpy.WorkChain):
        @classmethod
        def define(cls, spec):
            super().define(spec)
            spec.inputs.dynamic = True
            spec.outputs.dynamic = True
            spec.outline(cls.s0, plumpy.if_(cls.yes)(cls.s1, cls.s2).elif_(cls.second)(cls.e1, cls.e2).else_(cls.f1, cls.f2, cls.f3),
                         plumpy.while_(cls.again)(cls.s3), cls.s4)

        def s0(self):
            self.ctx.n = 0
            self.ctx.trace = ['s0']

        def yes(self):
            return self.inputs.get('branch', 0) == 0

        def second(self):
            return self.inputs.get('branch', 0) == 1

        def e1(self):
            self.ctx.trace.append('e1')

        def e2(self):
            self.ctx.trace.append('e2')

        def f1(self):
            self.ctx.trace.append('f1')

        def f2(self):
            self.ctx.trace.append('f2')

        def f3(self):
            self.ctx.trace.append('f3')

        def s1(self):
            self.ctx.trace.append('s1')

        def s2(self):
            self.ctx.trace.append('s2')
            self.out('mid', 3)

        def again(self):
            return self.ctx.n < 2

        def s3(self):
            self.ctx.n += 1
            self.ctx.trace.append('s3')

        def s4(self):
            self.ctx.trace.append('s4')

    for k in (Plain, Chain):
        k.__qualname__ = k.__name__ = 'RT' + k.__name__
        k.__module__ = 'rprocs'
        setattr(rprocs, k.__name__, k)

    async def drive(proc, nsteps, resume_at=None):
        for i in range(nsteps):
            if proc.has_terminated():
                break
            if proc.state.name == 'WAITING' and isinstance(proc, Plain):
                proc.resume('x')
            await asyncio.wait_for(proc.step(), 10)

    async def main():
        bad = []
        scenarios = []
        for n in range(0, 6):
            scenarios.append(('plain', {}, n, None))
            scenarios.append(('plain', {'a': 1, 'extra': [1, 2]}, n, None))
        scenarios.append(('plain', {'boom': True}, 6, None))
        scenarios.append(('plain', {}, 1, 'pause'))
        scenarios.append(('plain', {}, 2, 'kill'))
        for n in range(0, 9):
            scenarios.append(('chain', {'q': 1}, n, None))
        for n in range(1, 6):       # saved inside the elif_ / else_ branch
            scenarios.append(('chain', {'branch': 1}, n, None))
            scenarios.append(('chain', {'branch': 2}, n, None))
        scenarios.append(('chain', {}, 3, 'pause'))
        scenarios.append(('chain', {}, 3, 'kill'))
        scenarios.append(('plain', {}, 2, 'pause+kill'))
        scenarios.append(('chain', {}, 3, 'pause+kill'))
        for kind, inputs, n, ctl in scenarios:
            cls = Plain if kind == 'plain' else Chain
            proc = cls(inputs=dict(inputs))
            await drive(proc, n)
            if ctl == 'pause':
                proc.pause('holding')
            elif ctl == 'kill':
                proc.kill('enough')
            elif ctl == 'pause+kill':
                proc.pause('holding')
                proc.kill('enough')
            where = f'{kind} process with inputs {inputs} after {n} steps{" + " + ctl if ctl else ""} (state {proc.state.name})'
            try:
                b1 = persistence.Bundle(proc)
            except Exception as e:  # noqa
                bad.append(f'{where}: cannot be saved: {type(e).__name__}: {e}')
                continue
            carriers = {'copy': lambda b: copy.deepcopy(b), 'pickle': lambda b: pickle.loads(pickle.dumps(b)),
                        'yaml': lambda b: yaml.load(yaml.dump(b), Loader=yaml.Loader)}
            for cname, carry in carriers.items():
                try:
                    loaded = carry(b1).unbundle()
                    b2 = persistence.Bundle(loaded)
                except Exception as e:  # noqa
                    bad.append(f'{where}: load/save after travelling as {cname} fails: {type(e).__name__}: {e}')
                    continue
                if norm(b1) != norm(b2):
                    diff = [k for k in set(b1) | set(b2) if norm(b1).get(k) != norm(b2).get(k)]
                    bad.append(f'{where}: save-load-save through {cname} changes the bundle at keys {diff}')
                o1, o2 = observe(proc), observe(loaded)
                if o1 != o2:
                    diff = {k: (o1.get(k), o2.get(k)) for k in o1 if o1.get(k) != o2.get(k)}
                    bad.append(f'{where}: the process loaded through {cname} differs observably: {diff}')
            if len(bad) > 3:
                break
        # bundles a process takes OF ITSELF from inside its lifecycle hooks (where checkpoints are commonly taken): the state-entry
        # hooks run when the old state has been left and the new one not yet entered
        class HookSaver(Plain):
            saved = []

            def _snap(self, where):
                type(self).saved.append((where, persistence.Bundle(self)))

            def on_run(self):
                super().on_run()
                self._snap('on_run')

            def on_wait(self, awaiting):
                super().on_wait(awaiting)
                self._snap('on_wait')

            def on_finish(self, result, successful):
                super().on_finish(result, successful)
                self._snap('on_finish')

            def on_entered(self, from_state):
                super().on_entered(from_state)
                self._snap('on_entered ' + self.state.name)
        HookSaver.__qualname__ = HookSaver.__name__ = 'RTHookSaver'
        HookSaver.__module__ = 'rprocs'
        setattr(rprocs, 'RTHookSaver', HookSaver)
        proc = HookSaver(inputs={'a': 1})
        await drive(proc, 8)
        for where, b1 in HookSaver.saved:
            for cname, carry in {'copy': lambda b: copy.deepcopy(b), 'pickle': lambda b: pickle.loads(pickle.dumps(b)),
                                 'yaml': lambda b: yaml.load(yaml.dump(b), Loader=yaml.Loader)}.items():
                try:
                    b2 = persistence.Bundle(carry(b1).unbundle())
                except Exception as e:  # noqa
                    bad.append(f'bundle taken in {where}: load/save after travelling as {cname} fails: {type(e).__name__}: {e}')
                    continue
                if norm(b1) != norm(b2):
                    diff = [k for k in set(b1) | set(b2) if norm(b1).get(k) != norm(b2).get(k)]
                    bad.append(f'bundle taken in {where}: save-load-save through {cname} changes the bundle at keys {diff}')
        if not HookSaver.saved or proc.state.name != 'FINISHED':
            bad.append(f'hook-saving process ended {proc.state.name} with {len(HookSaver.saved)} bundles')
        return '; '.join(bad[:4]) or None

    return _run(main())


# ---------------------------------------------------------------------------------------------------- C10 / C06
def _barrier_chain():
    import plumpy
    from plumpy.workchains import WorkChain

    class BarrierChain(WorkChain):
        futs = {}
        log = []

        @classmethod
        def define(cls, spec):
            super().define(spec)
            spec.outline(cls.a, cls.b)

        def a(self):
            cls = type(self)
            cls.futs = {k: plumpy.Future() for k in cls.keys}
            cls.log.append('a')
            if cls.via_return:
                return plumpy.ToContext(**cls.futs)
            self.to_context(**cls.futs)

        def b(self):
            cls = type(self)
            cls.log.append(('b', {k: (f.done(), self.ctx.get(k)) for k, f in cls.futs.items()}))

    return BarrierChain


async def _settle(n=30):
    for _ in range(n):
        await asyncio.sleep(0)


def context_barrier(doc):
    """bounded search: 1..3 awaited futures, every completion order, success/failure, ToContext vs to_context(): the next
    step starts only after ALL completed and finds every result; a failure ends the chain EXCEPTED with that error"""
    import itertools

    async def main():
        base = _barrier_chain()
        sizes = [1, 2, 3, 4] if doc.get('tier') == 'thorough' else [1, 2, 3]
        for n, via_return, mode in itertools.product(sizes, [False, True], ['spread', 'same-iteration', 'done-before-the-wait', 'while-paused']):
            keys = ['k%d' % i for i in range(n)]
            for order in itertools.permutations(range(n)):
                for failing in [None] + list(range(n)):
                    if mode != 'spread':
                        r = await other_modes(base, n, via_return, mode, keys, order, failing)
                        if r:
                            return r
                        continue
                    cls = type('BC', (base,), {'keys': keys, 'via_return': via_return, 'futs': {}, 'log': []})
                    errs = []
                    asyncio.get_event_loop().set_exception_handler(lambda l, c: errs.append(repr(c.get('exception'))))
                    wc = cls()
                    task = asyncio.ensure_future(wc.step_until_terminated())
                    await _settle()
                    where = f'{n} awaited ({"ToContext" if via_return else "to_context"}), completion order {order}, failing {failing}'
                    early = []
                    for j, i in enumerate(order):
                        if any(isinstance(e, tuple) for e in cls.log) and j < n and failing is None:
                            early.append(j)
                        f = cls.futs[keys[i]]
                        if failing == i:
                            f.set_exception(RuntimeError('item %d failed' % i))
                        else:
                            f.set_result(100 + i)
                        await _settle()
                    await _settle()
                    task.cancel()
                    if early:
                        return f'{where}: the next step started before completion number(s) {early}'
                    if errs:
                        return f'{where}: exception reported to the event loop: {errs}'
                    if failing is None:
                        want = ('b', {k: (True, 100 + i) for i, k in enumerate(keys)})
                        if wc.state.name != 'FINISHED' or cls.log != ['a', want]:
                            return f'{where}: state {wc.state.name}, steps {cls.log}; expected FINISHED with {want}'
                    else:
                        ran_b = any(isinstance(e, tuple) for e in cls.log)
                        first_fail_pos = order.index(failing)
                        if wc.state.name != 'EXCEPTED' or ran_b or 'item %d failed' % failing not in str(wc.exception()):
                            return (f'{where}: state {wc.state.name} exception {wc.exception() if wc.state.name == "EXCEPTED" else None!r}, '
                                    f'next step ran: {ran_b}; expected EXCEPTED with the error of the item and no further step')
        # the SAME awaited item handed over under two keys: the next step finds the result under each of them
        known = set(doc.get('known_histories') or [])
        new = []
        for via_return in (True, False):
            cls = type('BC', (base,), {'keys': ['one'], 'via_return': via_return, 'futs': {}, 'log': []})

            def a(self):
                import plumpy
                cls_ = type(self)
                f = plumpy.Future()
                cls_.futs = {'k0': f, 'k1': f}
                cls_.log.append('a')
                if cls_.via_return:
                    return plumpy.ToContext(k0=f, k1=f)
                self.to_context(k0=f, k1=f)
            cls = type('BC', (base,), {'keys': ['one'], 'via_return': via_return, 'futs': {}, 'log': [], 'a': a})
            wc = cls()
            task = asyncio.ensure_future(wc.step_until_terminated())
            await _settle()
            cls.futs['k0'].set_result(7)
            await _settle(60)
            task.cancel()
            want = ('b', {'k0': (True, 7), 'k1': (True, 7)})
            if wc.state.name != 'FINISHED' or cls.log != ['a', want]:
                key = f'C10|same-item-under-two-keys|{"ToContext" if via_return else "to_context"}'
                if key in known:
                    print('KNOWN-HISTORY', key)
                else:
                    new.append(f'{key}: state {wc.state.name}, steps {cls.log}; expected FINISHED with {want}')
        return '; '.join(new) or None

    return _run(main())


async def other_modes(base, n, via_return, mode, keys, order, failing):
    """completions in ONE loop iteration / items already completed when the wait begins / completions while paused"""
    import plumpy
    cls = type('BC', (base,), {'keys': keys, 'via_return': via_return, 'futs': {}, 'log': []})
    errs = []
    asyncio.get_event_loop().set_exception_handler(lambda l, c: errs.append(repr(c.get('exception'))))

    def complete(i):
        f = cls.futs[keys[i]]
        if failing == i:
            f.set_exception(RuntimeError('item %d failed' % i))
        else:
            f.set_result(100 + i)

    where = f'{n} awaited ({"ToContext" if via_return else "to_context"}), mode {mode}, completion order {order}, failing {failing}'
    if mode == 'done-before-the-wait':
        orig_a = cls.a

        def a(self):
            r = orig_a(self)
            for i in order:
                complete(i)
            return r
        cls.a = a
    wc = cls()
    task = asyncio.ensure_future(wc.step_until_terminated())
    await _settle()
    if mode == 'same-iteration':
        for i in order:
            complete(i)
    elif mode == 'while-paused':
        wc.pause()
        await _settle()
        for i in order:
            complete(i)
            await _settle(3)
        await _settle()
        if any(isinstance(e, tuple) for e in cls.log):
            task.cancel()
            return f'{where}: the next step ran while the workchain was paused'
        wc.play()
    await _settle(60)
    task.cancel()
    ran_b = any(isinstance(e, tuple) for e in cls.log)
    if failing is None:
        want = ('b', {k: (True, 100 + i) for i, k in enumerate(keys)})
        if wc.state.name != 'FINISHED' or cls.log != ['a', want]:
            return f'{where}: state {wc.state.name}, steps {cls.log}, loop saw {errs}; expected FINISHED with {want}'
    else:
        if wc.state.name != 'EXCEPTED' or ran_b or 'item %d failed' % failing not in str(wc.exception()):
            return (f'{where}: state {wc.state.name} exception {wc.exception() if wc.state.name == "EXCEPTED" else None!r}, next step ran: '
                    f'{ran_b}, loop saw {errs}; expected EXCEPTED with the error of the item and no further step')
    return None


def process_resume_values(doc):
    """Wait(f) then Process.resume(v): f(v) for every v including None; resume(): f()"""
    import plumpy
    SENT = object()

    class W(plumpy.Process):
        got = None

        def run(self):
            return plumpy.Wait(self.after)

        def after(self, *args):
            W.got = args
            return 1

    class Elementwise:
        """a value whose == does not answer with a bool (array-like: the truth value of the comparison is refused)"""
        def __eq__(self, other):
            raise ValueError('the truth value of an elementwise comparison is ambiguous')

        def __repr__(self):
            return '<array-like>'
        __hash__ = object.__hash__

    class EqualsAnything:
        def __eq__(self, other):
            return True

        def __repr__(self):
            return '<equals anything>'
        __hash__ = object.__hash__

    async def main():
        for value in (SENT, None, 0, 42, 'v', (), Elementwise(), EqualsAnything()):
            W.got = 'not called'
            proc = W()
            await proc.step()
            await proc.step()
            if value is SENT:
                proc.resume()
            else:
                proc.resume(value)
            await asyncio.wait_for(proc.step_until_terminated(), 10)
            want = () if value is SENT else (value,)
            same = isinstance(W.got, tuple) and len(W.got) == len(want) and all(a is b for a, b in zip(W.got, want))
            if not same or proc.state.name != 'FINISHED':
                return (f'Wait(f) then resume({"" if value is SENT else repr(value)}): the continuation received {W.got!r} (state {proc.state.name}); '
                        f'expected f{want!r}')
        return None

    return _run(main())


def wakeup_lost_to_pause(doc):
    """the last awaited future completes, then pause() arrives in the same loop iteration (before the completion callback ran);
    after play() the workchain must continue"""
    async def main():
        cls = type('BC', (_barrier_chain(),), {'keys': ['x'], 'via_return': False, 'futs': {}, 'log': []})
        errs = []
        asyncio.get_event_loop().set_exception_handler(lambda l, c: errs.append(repr(c.get('exception'))))
        wc = cls()
        task = asyncio.ensure_future(wc.step_until_terminated())
        await _settle()
        cls.futs['x'].set_result(5)
        wc.pause()
        await _settle()
        wc.play()
        await _settle()
        stuck = wc.state.name == 'WAITING'
        task.cancel()
        if stuck:
            return (f'awaited future completed, pause() in the same iteration, play(): the workchain stays WAITING forever '
                    f'(loop saw {errs}); ctx {dict(vars(wc.ctx))}')
        return None

    return _run(main())


def cancelled_awaitable(doc):
    """an awaited future is cancelled: the workchain must not stay WAITING forever"""
    async def main():
        cls = type('BC', (_barrier_chain(),), {'keys': ['x'], 'via_return': False, 'futs': {}, 'log': []})
        errs = []
        asyncio.get_event_loop().set_exception_handler(lambda l, c: errs.append(repr(c.get('exception'))))
        wc = cls()
        task = asyncio.ensure_future(wc.step_until_terminated())
        await _settle()
        cls.futs['x'].cancel()
        await _settle()
        stuck = wc.state.name == 'WAITING'
        task.cancel()
        if stuck:
            return f'awaited future cancelled: the workchain stays WAITING forever; the event loop saw {errs}'
        return None

    return _run(main())


# ---------------------------------------------------------------------------------------------------- C16
def remote_equals_direct(doc):
    """bounded search over an in-process communicator: every control message (RPC and broadcast) at several points of a
    three-step process against the direct call on a twin; state-change broadcasts exactly once and in order; tolerated
    broadcast failures; a terminated process is unreachable"""
    import kiwipy
    import plumpy
    from aio_pika.exceptions import ChannelInvalidStateError, ConnectionClosed
    from plumpy import process_comms

    class Comm(kiwipy.LocalCommunicator):
        def __init__(self, fail_subject=None, exception=None):
            super().__init__()
            self.fail_subject, self.exception, self.failed = fail_subject, exception, 0

        def broadcast_send(self, body, sender=None, subject=None, correlation_id=None):
            if subject == self.fail_subject and not self.failed:
                self.failed += 1
                raise self.exception
            return super().broadcast_send(body, sender=sender, subject=subject, correlation_id=correlation_id)

    class Three(plumpy.Process):
        def run(self):
            return plumpy.Wait(self.second, msg='waiting')

        def second(self, *args):
            return plumpy.Continue(self.third)

        def third(self):
            return 7

    async def unwrap(v):
        for _ in range(10):
            if isinstance(v, kiwipy.Future):
                for _ in range(50):
                    if v.done():
                        break
                    await asyncio.sleep(0)
                if not v.done():
                    return '<pending>'
                try:
                    v = v.result()
                except Exception as e:  # noqa
                    return ('<raised>', type(e).__name__)
            elif asyncio.isfuture(v):
                for _ in range(50):
                    if v.done():
                        break
                    await asyncio.sleep(0)
                if not v.done():
                    return '<pending>'
                try:
                    v = v.result()
                except Exception as e:  # noqa
                    return ('<raised>', type(e).__name__)
            else:
                return v
        return v

    def snapshot(p):
        return (p.state.name, p.paused, p.status if p.paused else None, p.killed_msg()['message'] if p.state.name == 'KILLED' else None)

    async def at_point(proc, point):
        if point >= 1:
            await proc.step()
        if point >= 2:
            await proc.step()       # now WAITING (not stepping)

    builder = process_comms.MessageBuilder
    ops = {
        'pause': (lambda p: p.pause('why'), lambda: builder.pause('why')),
        'pause-no-text': (lambda p: p.pause(), lambda: builder.pause()),
        'play': (lambda p: p.play(), lambda: builder.play()),
        'kill': (lambda p: p.kill('stop it'), lambda: builder.kill('stop it')),
        'pause+play': (lambda p: (p.pause('x'), p.play())[1], None),
    }

    async def main():
        bad = []
        for point in (0, 1, 2):
            for name, (direct, message) in ops.items():
                if message is None:
                    continue
                for via in ('rpc', 'broadcast'):
                    comm = Comm()
                    a, b = Three(communicator=comm), Three()
                    await at_point(a, point)
                    await at_point(b, point)
                    if name == 'play':
                        a.pause('before')
                        b.pause('before')
                    want = await unwrap(direct(b))
                    if via == 'rpc':
                        got = await unwrap(comm.rpc_send(str(a.pid), message()))
                    else:
                        subj = {'pause': 'pause', 'pause-no-text': 'pause', 'play': 'play', 'kill': 'kill'}[name]
                        comm.broadcast_send(None if name == 'play' else message(), subject=subj, sender='someone')
                        got = want
                    await _settle(20)
                    if got != want:
                        bad.append(f'{name} at point {point} via {via}: remote reply {got!r}, direct call returns {want!r}')
                    if snapshot(a) != snapshot(b):
                        bad.append(f'{name} at point {point} via {via}: remotely controlled process {snapshot(a)}, directly controlled twin {snapshot(b)}')
            # status
            comm = Comm()
            a = Three(communicator=comm)
            await at_point(a, point)
            st = await unwrap(comm.rpc_send(str(a.pid), builder.status()))
            if not isinstance(st, dict) or set(st) != {'ctime', 'paused', 'process_string', 'state'} or st['state'] != str(a.state) \
                    or st['paused'] != a.paused or st['ctime'] != a.creation_time:
                bad.append(f'status at point {point}: {st!r}')
        if doc.get('tier') == 'thorough':
            # a control message that arrives in the middle of a LONG step: the reply waits for the step, like the direct call
            class Slow(plumpy.Process):
                async def run(self):
                    await asyncio.sleep(6.5)
                    return 1
            comm = Comm()
            a, b = Slow(communicator=comm), Slow()
            ta, tb = asyncio.ensure_future(a.step_until_terminated()), asyncio.ensure_future(b.step_until_terminated())
            await asyncio.sleep(0.2)
            fa = comm.rpc_send(str(a.pid), builder.pause('slow'))
            fb = b.pause('slow')
            await asyncio.sleep(7.5)
            got, want = await unwrap(fa), await unwrap(fb)
            if got != want or snapshot(a) != snapshot(b):
                bad.append(f'pause during a 6.5 s step: remote reply {got!r} / process {snapshot(a)}; direct {want!r} / {snapshot(b)}')
            ta.cancel()
            tb.cancel()
        # a control message that arrives on ANOTHER THREAD while the process's loop is idle must wake the loop
        import concurrent.futures
        comm = Comm()
        a = Three(communicator=comm)
        await a.step()
        await a.step()                  # WAITING; nothing scheduled on the loop
        ta = asyncio.ensure_future(a.step_until_terminated())
        await _settle(5)

        def from_thread():
            import time
            time.sleep(0.3)             # let the loop run out of work and block in its selector
            try:
                f1 = comm.rpc_send(str(a.pid), builder.pause('from a thread'))
                r1 = f1.result(timeout=2)
                r1 = r1.result(timeout=2) if isinstance(r1, kiwipy.Future) else r1
                return ('reply', r1)
            except concurrent.futures.TimeoutError:
                return ('timeout',)
            except Exception as e:  # noqa
                return ('raised', type(e).__name__)
        got = await asyncio.get_event_loop().run_in_executor(None, from_thread)
        await _settle(10)
        if got != ('reply', True) or not a.paused:
            bad.append(f'pause sent from another thread while the loop is idle: {got}, paused={a.paused} (a direct pause() returns True and pauses)')
        ta.cancel()
        # the same through plumpy's own wrapper that schedules every subscriber on the process's loop (LoopCommunicator): broadcasts
        # reach the wrapped subscribers with keyword arguments
        from plumpy.communications import LoopCommunicator
        local = Comm()
        try:
            a = Three(communicator=LoopCommunicator(local))
            b = Three()
            await a.step(), await b.step()
            await a.step(), await b.step()          # WAITING
            for subject, body, direct in (('pause', builder.pause('all hold'), lambda p: p.pause('all hold')),
                                          ('play', None, lambda p: p.play()),
                                          ('kill', builder.kill('all stop'), lambda p: p.kill('all stop'))):
                local.broadcast_send(body, subject=subject, sender='someone')
                direct(b)
                await _settle(20)
                if snapshot(a) != snapshot(b):
                    bad.append(f'broadcast {subject} through a LoopCommunicator: process {snapshot(a)}, directly controlled twin {snapshot(b)}')
        except Exception as e:  # noqa
            bad.append(f'a process controlled through LoopCommunicator(LocalCommunicator): {type(e).__name__}: {e}')
        # a pause that is cancelled by a play before it took effect: the requester of the pause learns so (a cancelled reply), remotely
        # as directly -- it is not left waiting for ever
        comm = Comm()
        a, b = Three(communicator=comm), Three()
        ta, tb = asyncio.ensure_future(a.step_until_terminated()), asyncio.ensure_future(b.step_until_terminated())
        await _settle(20)                       # both are inside their waiting step
        ra = comm.rpc_send(str(a.pid), builder.pause('hold'))
        rb = b.pause('hold')
        comm.rpc_send(str(a.pid), builder.play())
        b.play()
        await _settle(40)

        async def settled(v):
            for _ in range(6):
                if isinstance(v, kiwipy.Future) or asyncio.isfuture(v):
                    for _ in range(60):
                        if v.done():
                            break
                        await asyncio.sleep(0)
                    if not v.done():
                        return 'pending'
                    if v.cancelled():
                        return 'cancelled'
                    try:
                        v = v.result()
                    except BaseException as e:  # noqa
                        return 'raised ' + type(e).__name__
                else:
                    return repr(v)
            return repr(v)
        got, want = await settled(ra), await settled(rb)
        if got != want or snapshot(a) != snapshot(b):
            bad.append(f'pause then play in one loop iteration inside the waiting step: the remote pause reply is {got}, the direct call gives '
                       f'{want}; process {snapshot(a)}, twin {snapshot(b)}')
        ta.cancel(), tb.cancel()
        # unknown intent is an error and does nothing
        comm = Comm()
        a = Three(communicator=comm)
        r = await unwrap(comm.rpc_send(str(a.pid), {process_comms.INTENT_KEY: 'explode'}))
        if not (isinstance(r, tuple) and r[0] == '<raised>') or snapshot(a) != ('CREATED', False, None, None):
            bad.append(f'unknown intent: reply {r!r}, process {snapshot(a)}')
        # announcements: each completed transition once, in order; tolerated failures do not disturb the process
        subjects = ['state_changed.None.created', 'state_changed.created.running', 'state_changed.running.waiting',
                    'state_changed.waiting.running', 'state_changed.running.running', 'state_changed.running.finished']
        for fail, exc in [(None, None)] + [(s_, e) for s_ in subjects[:-1]
                                           for e in (ConnectionClosed(), ChannelInvalidStateError(), kiwipy.TimeoutError())]:
            comm = Comm(fail, exc)
            heard = []
            comm.add_broadcast_subscriber(lambda c, body=None, sender=None, subject=None, correlation_id=None:
                                          heard.append((sender, subject, body)) if str(subject).startswith('state_changed') else None)
            try:
                a = Three(communicator=comm)
                task = asyncio.ensure_future(a.step_until_terminated())
                await _settle(10)
                a.resume('go')
                await _settle(40)
                task.cancel()
            except Exception as e:  # noqa
                bad.append(f'broadcast failure {type(exc).__name__} at {fail} disturbed the process: {type(e).__name__}: {e}')
                continue
            want = [(a.pid, s_, None) for s_ in subjects if s_ != fail]
            if a.state.name != 'FINISHED' or a.result() != 7:
                bad.append(f'broadcast failure {type(exc).__name__ if exc else None} at {fail}: process ended {a.state.name}')
            if heard != want:
                bad.append(f'broadcast failure {type(exc).__name__ if exc else None} at {fail}: announcements {[h[1] for h in heard]}, '
                           f'expected {[w[1] for w in want]} (sender/body as announced: {heard[:1]})')
            # a terminated process no longer receives messages
            try:
                comm.rpc_send(str(a.pid), builder.status())
                bad.append('a terminated process is still reachable over RPC')
            except kiwipy.UnroutableError:
                pass
            if len(bad) > 3:
                break
        # ... and neither does a process that is LOADED in a terminal state (a checkpoint of a finished or killed process)
        import rprocs
        Three.__qualname__ = Three.__name__ = 'RemoteThree'
        Three.__module__ = 'rprocs'
        setattr(rprocs, 'RemoteThree', Three)
        for how in ('finished', 'killed'):
            done = Three()
            if how == 'killed':
                done.kill('enough')
                done.future().exception()       # (retrieved: no 'never retrieved' noise)
            else:
                await done.step()
                await done.step()
                done.resume()
                await asyncio.wait_for(done.step_until_terminated(), 10)
            comm = Comm()
            loaded = plumpy.Bundle(done).unbundle(plumpy.LoadSaveContext(communicator=comm))
            heard_ = []
            try:
                r = await unwrap(comm.rpc_send(str(loaded.pid), builder.status()))
                bad.append(f'a process loaded in its terminal state ({loaded.state.name}) is reachable over RPC: status replies {str(r)[:60]}')
            except kiwipy.UnroutableError:
                pass
        return '; '.join(bad[:4]) or None

    return _run(main())


# ---------------------------------------------------------------------------------------------------- C12
def output_emission(doc):
    """bounded search: declared / nested / dynamic / undeclared output ports x accepted / rejected values: out() stores exactly
    the accepted ones, a rejected one raises ValueError and leaves the outputs untouched; success needs valid outputs"""
    import copy
    import plumpy

    def crashing_validator(value, port):
        return {}['missing']

    def positive(value, port):
        if value <= 0:
            return 'must be positive'

    class P(plumpy.Process):
        script = []
        seen = []

        @classmethod
        def define(cls, spec):
            super().define(spec)
            spec.output('x', valid_type=int, validator=positive)
            spec.output('opt', valid_type=str, required=False)
            spec.output('crashy', valid_type=int, validator=crashing_validator, required=False)
            spec.output('ns.inner', valid_type=int, required=False)
            spec.output_namespace('opt_ns', required=False)
            spec.output('opt_ns.must', valid_type=int)
            spec.output_namespace('dyn', valid_type=int, dynamic=True, required=False)
            spec.output_namespace('bag', valid_type=int, dynamic=True, required=False)     # never given a declared or created member

        def run(self):
            cls = type(self)
            for path, value in cls.script:
                before = copy.deepcopy(dict(self.outputs))
                try:
                    self.out(path, value)
                    cls.seen.append((path, 'stored', copy.deepcopy(dict(self.outputs)), before))
                except ValueError:
                    cls.seen.append((path, 'ValueError', copy.deepcopy(dict(self.outputs)), before))
                except KeyError:
                    cls.seen.append((path, 'KeyError', copy.deepcopy(dict(self.outputs)), before))
            return 'the-result'

    def nested_set(d, path, value):
        d = copy.deepcopy(d)
        cur = d
        parts = path.split('.')
        for p_ in parts[:-1]:
            cur = cur.setdefault(p_, {})
        cur[parts[-1]] = value
        return d

    emissions = [('x', 3, True), ('x', -1, False), ('x', 'three', False), ('opt', 'a', True), ('opt', 5, False),
                 ('ns.inner', 4, True), ('ns.inner', 'four', False), ('dyn.a', 1, True), ('dyn.a', 'one', False),
                 ('dyn.sub.b', 2, True), ('dyn.sub.b', 'two', False), ('undeclared', 1, False), ('ns.other', 1, False),
                 ('opt_ns.must', 'bad', False), ('opt_ns.deeper.leaf', 'bad', False), ('crashy', 5, 'KeyError'),
                 ('dyn.a', None, False), ('dyn.a', '', False), ('dyn.a', 0.0, False), ('dyn.sub.b', None, False), ('dyn.a', 0, True),
                 ('x', 0, False), ('opt', '', True), ('ns.inner', 0, True),
                 # a whole mapping emitted onto a declared namespace that has no explicitly declared ports (an empty namespace is
                 # falsy): it is validated by THAT namespace, not treated as an undeclared port of the parent
                 ('bag', {'a': 1}, True), ('bag', {'a': 'one'}, False), ('bag', {}, True), ('dyn', {'sub': {'b': 2}}, True),
                 # falsy values that are not mappings, emitted onto a namespace
                 ('bag', 0, False), ('bag', [], False), ('opt_ns', '', False), ('dyn', False, False)]

    async def main():
        bad = []
        for path, value, accepted in emissions:
            for with_x in (True, False):
                P.script = ([('x', 1)] if with_x else []) + [(path, value)]
                P.seen = []
                proc = P()
                await asyncio.wait_for(proc.step_until_terminated(), 10)
                p_, verdict, after, before = P.seen[-1]
                where = f"out({path!r}, {value!r}) (outputs before: {before})"
                if accepted is True:
                    if verdict != 'stored' or after != nested_set(before, path, value):
                        bad.append(f'{where}: {verdict}, outputs {after}; expected stored at exactly that path')
                elif accepted is False:
                    if verdict != 'ValueError' or after != before:
                        bad.append(f'{where}: {verdict}, outputs {after}; expected ValueError and unchanged outputs')
                else:
                    if verdict != accepted or after != before:
                        bad.append(f"{where}: {verdict}, outputs {after}; expected the validator's {accepted} and unchanged outputs")
                # success requires spec-conforming outputs; the result is preserved either way
                want_ok = 'x' in proc.outputs
                if proc.state.name != 'FINISHED' or proc.result() != 'the-result' or proc.is_successful != want_ok:
                    bad.append(f'{where}: ended {proc.state.name}, successful={getattr(proc, "is_successful", None)}, outputs {dict(proc.outputs)}; '
                               f'expected FINISHED with the result preserved and successful={want_ok}')
                if proc.future().result() != proc.outputs:
                    bad.append(f'{where}: the process future reports {proc.future().result()} instead of the outputs')
            if len(bad) > 3:
                break
        # a process restored from a checkpoint that already holds outputs keeps emitting
        import rprocs

        class R(plumpy.Process):
            @classmethod
            def define(cls, spec):
                super().define(spec)
                spec.outputs.dynamic = True

            def run(self):
                self.out('first', 1)
                return plumpy.Wait(self.after)

            def after(self, value=None):
                self.out('second', 2)
                return 'r'
        R.__qualname__ = R.__name__ = 'EmitR'
        R.__module__ = 'rprocs'
        setattr(rprocs, 'EmitR', R)
        proc = R()
        await proc.step()
        await proc.step()
        loaded = plumpy.Bundle(proc).unbundle()
        loaded.resume()
        await asyncio.wait_for(loaded.step_until_terminated(), 10)
        if loaded.state.name != 'FINISHED' or dict(loaded.outputs) != {'first': 1, 'second': 2} or loaded.future().result() != loaded.outputs:
            bad.append(f'restored process emitting again: state {loaded.state.name}, outputs {dict(loaded.outputs)}'
                       + (f', exception {loaded.exception()!r}' if loaded.state.name == 'EXCEPTED' else ''))
        return '; '.join(bad[:4]) or None

    return _run(main())


# ---------------------------------------------------------------------------------------------------- C04 / C05 / C03 histories
def _control_world():
    import plumpy

    class Ctl(plumpy.Process):
        """CREATED -> RUNNING(run: async, awaits a gate) -> WAITING(after) -> RUNNING(last) -> FINISHED"""
        def __init__(self, *a, **k):
            super().__init__(*a, **k)
            self.trace = []
            self.statuses = []
            self.gate = None

        async def run(self):
            self.trace.append(('run', self.paused))
            self.statuses.append(('run', self.status))
            self.set_status('working')
            self.gate = asyncio.get_event_loop().create_future()
            await self.gate
            self.trace.append(('run-end', self.paused))
            return plumpy.Wait(self.after, msg='waiting')

        def after(self, value=None):
            self.trace.append(('after', self.paused, value))
            self.statuses.append(('after', self.status))
            return plumpy.Continue(self.last)

        def last(self):
            self.trace.append(('last', self.paused))
            self.statuses.append(('last', self.status))
            return 'done'

        def load_instance_state(self, saved_state, load_context):
            super().load_instance_state(saved_state, load_context)
            self.trace, self.statuses, self.gate = [], [], None        # (observation aids of this harness, not persisted)

    import rprocs
    Ctl.__qualname__ = Ctl.__name__ = 'Ctl'
    Ctl.__module__ = 'rprocs'
    setattr(rprocs, 'Ctl', Ctl)       # loadable by name: the restored points unbundle a checkpoint of it
    return Ctl


async def _drive_history(Ctl, point, requests, errs):
    """issue `requests` (a tuple of 'pause' / 'play' / 'kill' / 'resume') at `point`, let the process run on, play it if it
    stays paused, resume it if it waits, and report everything observable"""
    proc = Ctl()
    obs = {'raised': [], 'returns': []}
    if point == 'restored-created':
        # the same points on a process RESTORED from a checkpoint (built by load_instance_state, never by __init__)
        import plumpy
        proc = plumpy.Bundle(proc).unbundle()
        point = 'created'
    elif point == 'restored-waiting':
        import plumpy
        t0 = asyncio.ensure_future(proc.step_until_terminated())
        await _settle(5)
        proc.gate.set_result(None)
        await _settle(10)
        bundle = plumpy.Bundle(proc)
        t0.cancel()
        await _settle(3)
        proc = bundle.unbundle()
        obs['expected_steps'] = ['after', 'last']
        obs['restored'] = True
        task = asyncio.ensure_future(proc.step_until_terminated())
        await _settle(10)
        point = 'restored-waiting*'
    if point == 'listener':
        # the requests are issued re-entrantly, from a listener called while the process ENTERS the waiting state
        import plumpy

        class L(plumpy.ProcessListener):
            def on_process_waiting(self, process):
                if obs.get('fired'):
                    return
                obs['fired'] = True
                for r in requests:
                    try:
                        if r in ('pause', 'pause0'):
                            obs['returns'].append(('pause', process.pause('hold') if r == 'pause' else process.pause()))
                        elif r == 'play':
                            obs['returns'].append(('play', process.play()))
                        elif r == 'kill':
                            obs['returns'].append(('kill', process.kill('enough')))
                        elif r == 'resume':
                            obs['returns'].append(('resume', process.resume('v')))
                        elif r == 'cancel':
                            process.future().cancel()
                    except Exception as e:  # noqa
                        obs['raised_in_listener'] = obs.get('raised_in_listener', []) + [(r, type(e).__name__)]
        obs['keep'] = L()
        proc.add_process_listener(obs['keep'])
    if point == 'paused':
        await proc.step()         # CREATED -> RUNNING
        proc.pause('first')       # paused at the step boundary before the first step function: the task below waits for play()
    if point != 'restored-waiting*':
        task = asyncio.ensure_future(proc.step_until_terminated())
    if point == 'created':
        task.cancel()
        task = None
    elif point == 'paused':
        await _settle(5)
    elif point == 'running':
        await _settle(5)
    elif point == 'waiting':
        await _settle(5)
        proc.gate.set_result(None)
        await _settle(10)
    elif point == 'listener':
        await _settle(5)
        proc.gate.set_result(None)
        await _settle(10)
    for r in (() if point == 'listener' else requests):
        try:
            if r == 'pause':
                obs['returns'].append(('pause', proc.pause('hold')))
            elif r == 'pause0':
                obs['returns'].append(('pause', proc.pause()))
            elif r == 'play':
                obs['returns'].append(('play', proc.play()))
            elif r == 'kill':
                if not proc.has_terminated():
                    obs['kill_on_live'] = True       # (C04 speaks of kill() on a process that has not terminated)
                rv = proc.kill('enough')
                obs['returns'].append(('kill', rv))
                if rv is True:
                    obs['trace_len_at_kill'] = len(proc.trace)
            elif r == 'resume':
                obs['returns'].append(('resume', proc.resume('v')))
            elif r == 'cancel':
                if not proc.has_terminated():
                    obs['kill_on_live'] = True
                proc.future().cancel()       # "cancelling the process's future has the same effect as kill()"
            elif r == 'tick':
                await _settle(5)             # the event loop runs between two requests (the earlier one takes effect first)
        except Exception as e:  # noqa
            obs['raised'].append((r, type(e).__name__, str(e)[:60]))
    if task is None:
        task = asyncio.ensure_future(proc.step_until_terminated())
    await _settle(10)
    if (point == 'running' or 'tick' in requests) and proc.gate is not None and not proc.gate.done():
        proc.gate.set_result(None)      # a request made inside the running step takes effect when that step ends
        await _settle(20)
    obs['paused_midway'] = proc.paused
    obs['trace_while_paused'] = list(proc.trace)
    for _ in range(6):
        if proc.has_terminated():
            break
        if proc.gate is not None and not proc.gate.done():
            proc.gate.set_result(None)
            await _settle(20)
        if proc.paused:
            try:
                proc.play()
            except Exception as e:  # noqa
                obs['raised'].append(('play*', type(e).__name__, str(e)[:60]))
            await _settle(20)
        if proc.state.name == 'WAITING' and 'resume' not in requests and not proc.paused:
            try:
                proc.resume('late')
            except Exception as e:  # noqa
                obs['raised'].append(('resume*', type(e).__name__, str(e)[:60]))
            await _settle(20)
        await _settle(10)
    obs['proc'] = proc
    obs['task'] = task
    return obs


async def _resolve(v):
    if asyncio.isfuture(v):
        for _ in range(100):
            if v.done():
                break
            await asyncio.sleep(0)
        if not v.done():
            return '<pending>'
        if v.cancelled():
            return '<cancelled>'
        try:
            return v.result()
        except Exception as e:  # noqa
            return ('<raised>', type(e).__name__)
    return v


def control_histories(doc):
    """bounded search over control-request histories: up to 3 requests from {pause, play, kill, resume} issued at one of three
    points (CREATED before stepping / inside the running step / inside the waiting step) of a three-step process.
    Checked: kill is never lost and never raises, its reply is True exactly when the process ended KILLED, a final probing
    kill terminates every live end configuration (C04); no step starts while paused, pause/play never raise, play un-pauses,
    the executed steps and the result are those of the undisturbed run (C05); nothing escapes to the event loop (C03)."""
    import itertools
    Ctl = _control_world()
    known = set(doc.get('known_histories') or [])
    want = doc.get('claims') or ['C04', 'C05', 'C03', 'C06']

    async def main():
        failures = []
        ref = await _drive_history(Ctl, 'waiting', (), [])
        REF_STATUSES = ref['proc'].statuses
        if ref['task'] is not None:
            ref['task'].cancel()
        reqs = ['pause', 'pause0', 'play', 'kill', 'resume', 'cancel']
        for point in ('created', 'paused', 'running', 'waiting', 'listener', 'restored-created', 'restored-waiting'):
            lengths = (1, 2, 3, 4) if doc.get('tier') == 'thorough' else (1, 2, 3)
            if point.startswith('restored-'):
                lengths = (1,)      # a restored process answers every single request like a freshly constructed one
            for n in lengths:
                for base, ticked in itertools.product(itertools.product(reqs, repeat=n), (False, True)):
                    requests = base
                    if ticked:
                        # the same requests with the event loop running between each two of them
                        if n == 1 or point == 'listener':
                            continue
                        requests = tuple(x for r_ in base for x in (r_, 'tick'))[:-1]
                    if 'resume' in requests and point not in ('waiting', 'listener', 'restored-waiting'):
                        continue
                    errs = []
                    asyncio.get_event_loop().set_exception_handler(lambda l, c: errs.append(repr(c.get('exception') or c.get('message'))))
                    obs = await _drive_history(Ctl, point, requests, errs)
                    proc = obs['proc']
                    key = f"{point}:{'+'.join(requests)}"
                    probs = []
                    killed_asked = 'kill' in requests or 'cancel' in requests
                    # ---- C05
                    if 'C05' in want:
                        for r, cls_, msg in obs['raised']:
                            if r.startswith('pause') or r.startswith('play'):
                                probs.append(('C05', r.rstrip('*') + '-raises', f'{r}() raised {cls_}: {msg}'))
                        if any(e[1] for e in proc.trace):
                            probs.append(('C05', 'step-while-paused', f'a step started while the process reported paused: {proc.trace}'))
                        if not killed_asked and proc.state.name != 'KILLED':
                            steps = [e[0] for e in proc.trace]
                            if steps != obs.get('expected_steps', ['run', 'run-end', 'after', 'last']) or proc.state.name != 'FINISHED' or proc.result() != 'done':
                                probs.append(('C05', 'different-run', f'steps {steps}, end {proc.state.name}: not the undisturbed run'))
                        if not killed_asked and proc.state.name == 'FINISHED' and proc.statuses != REF_STATUSES and not obs.get('restored'):
                            probs.append(('C05', 'status', f'status at the entry of each step {proc.statuses}; undisturbed run: {REF_STATUSES}'))
                        pp = [r for r in requests if r in ('pause', 'pause0', 'play')]
                        if pp and pp[-1] != 'play' and not killed_asked and 'resume' not in requests and not obs['raised']:
                            if not obs['paused_midway']:
                                probs.append(('C05', 'pause-lost', 'pause() was the last pause/play request, yet the process is not paused at the next step boundary'))
                        if pp and pp[-1] == 'play' and obs['paused_midway'] and 'kill' not in requests:
                            probs.append(('C05', 'pause-after-play', 'play() was the last pause/play request, yet the process paused afterwards'))
                    # ---- C06
                    if 'C06' in want and 'resume' in requests and not killed_asked:
                        got = [e[2] for e in proc.trace if e[0] == 'after']
                        if proc.state.name == 'WAITING':
                            probs.append(('C06', 'wakeup-lost', f'resumed, yet the process stays WAITING (steps {[e[0] for e in proc.trace]})'))
                        elif got != ['v']:
                            probs.append(('C06', 'resume-value', f'the continuation received {got} instead of the value of the first resume()'))
                    # ---- C04
                    if 'C04' in want:
                        for r, cls_, msg in obs['raised']:
                            if r == 'kill':
                                probs.append(('C04', 'kill-raises', f'kill() raised {cls_}: {msg}'))
                        if killed_asked and proc.state.name != 'KILLED' and (obs.get('kill_on_live') or point == 'listener'):
                            # (no step of this process ever fails: EXCEPTED is no excuse)
                            kind_ = 'kill-lost' if proc.state.name != 'EXCEPTED' else 'kill-excepts'
                            probs.append(('C04', kind_, f'kill requested but the process ended {proc.state.name}'
                                          + (f' with {proc.exception()!r}' if proc.state.name == 'EXCEPTED' else '')))
                        for r, v in obs['returns']:
                            if r == 'kill':
                                rv = await _resolve(v)
                                if (rv is True) != (proc.state.name == 'KILLED'):
                                    probs.append(('C04', 'kill-reply', f'kill() reply {rv!r} but the process ended {proc.state.name}'))
                        if proc.state.name == 'KILLED' and 'kill' in requests and 'cancel' not in requests and proc.killed_msg().get('message') != 'enough':
                            probs.append(('C04', 'kill-text', f'the kill text is recorded as {proc.killed_msg().get("message")!r}'))
                        if 'trace_len_at_kill' in obs and len(proc.trace) > obs['trace_len_at_kill']:
                            probs.append(('C04', 'step-after-kill', f'kill() returned True, yet step functions ran afterwards: {proc.trace[obs["trace_len_at_kill"]:]}'))
                        if not proc.has_terminated():
                            try:
                                proc.kill('probe')
                                await _settle(30)
                                if proc.paused:
                                    proc.play()
                                    await _settle(30)
                            except Exception as e:  # noqa
                                probs.append(('C04', 'probe-raises', f'probing kill raised {type(e).__name__}'))
                            if not proc.has_terminated():
                                probs.append(('C04', 'unkillable', f'live end configuration ({proc.state.name}, paused={proc.paused}) cannot be killed'))
                    # ---- C01 / C02 views of the same histories
                    if 'C01' in want and 'trace_len_at_kill' in obs and (len(proc.trace) > obs['trace_len_at_kill'] or proc.state.name != 'KILLED'):
                        probs.append(('C01', 'terminal-not-final', f'kill() returned True (KILLED), afterwards: state {proc.state.name}, '
                                                                     f'steps run {proc.trace[obs["trace_len_at_kill"]:]}'))
                    if 'C02' in want and proc.state.name == 'KILLED' and 'kill' in requests and 'cancel' not in requests and proc.killed_msg().get('message') != 'enough':
                        probs.append(('C02', 'kill-text', f'killed_msg() reports the text {proc.killed_msg().get("message")!r}, kill() was given \'enough\''))
                    if 'C02' in want and proc.has_terminated() and obs['task'] is not None:
                        # "step_until_terminated() returns" -- for every placement of the requests (kill while paused included)
                        await _settle(20)
                        if not obs['task'].done():
                            probs.append(('C02', 'stepping-never-returns', f'the process is {proc.state.name} but step_until_terminated() '
                                                                          f'has not returned (paused={proc.paused})'))
                    # ---- C03
                    if 'C03' in want and errs:
                        probs.append(('C03', 'loop-error', f'reported to the event loop: {errs[:2]}'))
                    if obs['task'] is not None:
                        obs['task'].cancel()
                    for prop, kind, text in probs:
                        if prop in want:
                            failures.append((f'{prop}|{key}|{kind}', text))
        def listed(key):
            """a failing history is a listed one, or (longer histories of the thorough tier) a listed history of the same point and
            kind extended by further requests: the listed requests occur in it in the same order"""
            if key in known:
                return key
            prop, hist, kind = key.split('|')
            point, reqs_ = hist.split(':')
            seq_ = reqs_.split('+')
            if len([x for x in seq_ if x != 'tick']) <= 3:
                return None          # (histories of the quick tier, with or without loop ticks between the requests, are listed one by one)
            seq_ = [x for x in seq_ if x != 'tick']
            for k in known:
                p2, h2, k2 = k.split('|')
                pt2, r2 = h2.split(':')
                if (p2, pt2, k2) != (prop, point, kind):
                    continue
                it = iter(seq_)
                if all(any(x == y for y in it) for x in r2.split('+') if x != 'tick'):     # (loop ticks ignored on both sides)
                    return k
            return None

        new = [(k, t) for k, t in failures if listed(k) is None]
        for k in sorted({listed(k) for k, _ in failures if listed(k) is not None}):
            print('KNOWN-HISTORY', k)
        if doc.get('list_all'):
            for k, t in failures:
                print('FAIL', k, '::', t)
        if new:
            return '; '.join(f'{k}: {t}' for k, t in new[:3]) + (f' (+{len(new) - 3} more)' if len(new) > 3 else '')
        return None

    return _run(main())


# ---------------------------------------------------------------------------------------------------- C03
def failure_injection(doc):
    """bounded search: ONE user exception injected at each point where user code runs (step function, continuation, scheduled
    callback, every state entry/exit/termination hook -- before or after its super() call --, listener, pause/play hooks,
    construction hooks); checked: ends EXCEPTED with exactly that exception, future raises it, stepping returns normally,
    nothing reaches the event loop; listener failures change nothing; pause/play hook failures are reported to the requester
    and leave the process controllable; construction failures propagate"""
    import plumpy
    known = set(doc.get('known_histories') or [])

    class Boom(Exception):
        pass

    HOOKS = ['on_run', 'on_running', 'on_exit_running', 'on_wait', 'on_waiting', 'on_exit_waiting', 'on_finish', 'on_finished',
             'on_terminated', 'on_output_emitting', 'on_output_emitted']
    PAUSE_HOOKS = ['on_pausing', 'on_paused', 'on_playing']
    CTOR_HOOKS = ['on_create', 'init']

    def make(point, where):
        class F(plumpy.Process):
            fired = []

            @classmethod
            def define(cls, spec):
                super().define(spec)
                spec.outputs.dynamic = True

            def run(self):
                if point == 'run':
                    raise Boom('run')
                if point == 'call_soon':
                    self.call_soon(self.cb)
                self.out('o', 1)
                return plumpy.Wait(self.after)

            def cb(self):
                raise Boom('call_soon')

            def after(self, value=None):
                if point == 'continuation':
                    raise Boom('continuation')
                return 5

        def wrap(name):
            base = getattr(plumpy.Process, name)

            def hook(self, *a, **k):
                if where == 'before' and not F.fired:
                    F.fired.append(name)
                    raise Boom(name)
                r = base(self, *a, **k)
                if not F.fired:
                    F.fired.append(name)
                    raise Boom(name)
                return r
            hook.__name__ = name
            return hook
        if point in HOOKS + PAUSE_HOOKS + CTOR_HOOKS:
            setattr(F, point, wrap(point))
        return F

    class BadListener(plumpy.ProcessListener):
        def on_process_running(self, process):
            raise Boom('listener')

        def on_output_emitted(self, process, port, value, dynamic):
            raise Boom('listener')

        def on_process_finished(self, process, outputs):
            raise Boom('listener')

    async def run_to_end(proc, errs):
        task = asyncio.ensure_future(proc.step_until_terminated())
        for _ in range(8):
            await _settle(10)
            if proc.has_terminated() or task.done():
                break
            if proc.state.name == 'WAITING':
                proc.resume('x')
        await _settle(10)
        return task

    async def main():
        failures = []

        def fail(key, text):
            failures.append((key, text))

        for point in ['run', 'continuation', 'call_soon'] + HOOKS:
            for where in (('before', 'after') if point in HOOKS else ('-',)):
                key = f'C03|{point}:{where}'
                errs = []
                asyncio.get_event_loop().set_exception_handler(lambda l, c: errs.append(repr(c.get('exception') or c.get('message'))))
                F = make(point, where)
                try:
                    proc = F()
                except Exception as e:  # noqa
                    fail(key + '|ctor', f'construction raised {type(e).__name__}')
                    continue
                task = await run_to_end(proc, errs)
                if not task.done():
                    fail(key + '|stuck', f'stepping does not return (state {proc.state.name})')
                    task.cancel()
                    continue
                if task.exception() is not None:
                    fail(key + '|escapes-stepping', f'step_until_terminated raised {type(task.exception()).__name__}: {task.exception()}')
                if errs:
                    fail(key + '|loop-error', f'reported to the event loop: {errs[:2]}')
                if proc.state.name != 'EXCEPTED':
                    fail(key + '|not-excepted', f'ended {proc.state.name}')
                    continue
                if not isinstance(proc.exception(), Boom):
                    fail(key + '|other-exception', f'ended EXCEPTED with {type(proc.exception()).__name__}: {proc.exception()} instead of the injected one')
                fut = proc.future()
                if not fut.done() or not isinstance(fut.exception(), Boom):
                    fail(key + '|future', f'the process future does not raise the injected exception: {fut}')
        # ---- listener failures change nothing
        errs = []
        asyncio.get_event_loop().set_exception_handler(lambda l, c: errs.append(repr(c.get('exception') or c.get('message'))))
        F = make('-', '-')
        proc = F()
        keep = BadListener()
        proc.add_process_listener(keep)
        task = await run_to_end(proc, errs)
        if proc.state.name != 'FINISHED' or proc.result() != 5 or errs or (task.done() and task.exception() is not None):
            fail('C03|listener|disturbs', f'a raising listener: state {proc.state.name}, loop saw {errs}')
        # ---- pause / play hooks: reported to the requester, process stays controllable
        for point in PAUSE_HOOKS:
            for where in ('before', 'after'):
                key = f'C03|{point}:{where}'
                errs = []
                asyncio.get_event_loop().set_exception_handler(lambda l, c: errs.append(repr(c.get('exception') or c.get('message'))))
                F = make(point, where)
                proc = F()
                reported = None
                try:
                    r1 = proc.pause('p')
                    r2 = proc.play()
                except Boom:
                    reported = True
                except Exception as e:  # noqa
                    fail(key + '|other-exception', f'pause/play raised {type(e).__name__} instead of the injected exception')
                if not reported:
                    fail(key + '|not-reported', 'the hook failure was not reported to the caller of pause()/play()')
                if proc.has_terminated():
                    fail(key + '|not-live', f'the process ended {proc.state.name}')
                    continue
                F.fired.append('done')
                try:
                    if proc.paused:
                        proc.play()
                    proc.kill('bye')
                    await _settle(10)
                except Exception as e:  # noqa
                    fail(key + '|uncontrollable', f'after the failed hook, play()/kill() raised {type(e).__name__}: {e}')
                if not proc.has_terminated():
                    fail(key + '|uncontrollable', f'after the failed hook the process cannot be killed (state {proc.state.name}, paused {proc.paused})')
        # ---- the same hooks on the DEFERRED path: pause requested inside a waiting step
        for point in ('on_pausing', 'on_paused'):
            for where in ('before', 'after'):
                key = f'C03|deferred-{point}:{where}'
                errs = []
                asyncio.get_event_loop().set_exception_handler(lambda l, c: errs.append(repr(c.get('exception') or c.get('message'))))
                F = make(point, where)
                proc = F()
                task = asyncio.ensure_future(proc.step_until_terminated())
                await _settle(10)             # now inside the waiting step
                first = proc.pause('p')
                await _settle(20)
                rv = await _resolve(first)
                if not (isinstance(rv, tuple) and rv[0] == '<raised>' and rv[1] == 'Boom'):
                    fail(key + '|not-reported', f'the requester of the pause got {rv!r} instead of the hook failure')
                if proc.has_terminated():
                    fail(key + '|not-live', f'the process ended {proc.state.name}')
                    task.cancel()
                    continue
                try:
                    second = proc.pause('again')
                    await _settle(20)
                    rv2 = await _resolve(second)
                    if rv2 is not True or not proc.paused:
                        fail(key + '|uncontrollable', f'a later pause() gives {rv2!r} (paused={proc.paused}) instead of pausing the process')
                    proc.play()
                    proc.kill('bye')
                    await _settle(20)
                except Exception as e:  # noqa
                    fail(key + '|uncontrollable', f'after the failed hook, pause()/play()/kill() raised {type(e).__name__}: {e}')
                if not proc.has_terminated():
                    fail(key + '|uncontrollable', f'after the failed hook the process cannot be killed (state {proc.state.name}, paused {proc.paused})')
                task.cancel()
        # ---- construction failures propagate
        for point in CTOR_HOOKS:
            for where in ('before', 'after'):
                F = make(point, where)
                try:
                    F()
                    fail(f'C03|{point}:{where}|swallowed', 'a failing construction hook did not propagate to the caller')
                except Boom:
                    pass
                except Exception as e:  # noqa
                    fail(f'C03|{point}:{where}|other-exception', f'construction raised {type(e).__name__} instead of the injected exception')
        new = [(k, t) for k, t in failures if k not in known]
        for k in sorted({k for k, _ in failures if k in known}):
            print('KNOWN-HISTORY', k)
        if doc.get('list_all'):
            for k, t in failures:
                print('FAIL', k, '::', t)
        if new:
            return '; '.join(f'{k}: {t}' for k, t in new[:3]) + (f' (+{len(new) - 3} more)' if len(new) > 3 else '')
        return None

    return _run(main())


# ---------------------------------------------------------------------------------------------------- C11
def input_validation(doc):
    """bounded search: one input spec (required / optional / defaulted / callable-defaulted / validated leaf ports, a nested
    namespace, a lazy namespace (populate_defaults=False), a typed dynamic namespace) x a family of input dictionaries, against
    an independent reference model: construction raises exactly when the reference rejects; accepted inputs = given values
    completed with the declared defaults, read-only at every declared level; raw_inputs and the caller's dict untouched"""
    import copy
    import functools
    import itertools
    import plumpy
    from plumpy.utils import AttributesFrozendict
    known = set(doc.get('known_histories') or [])

    def positive(value, port):
        if value <= 0:
            return 'must be positive'

    class P(plumpy.Process):
        @classmethod
        def define(cls, spec):
            super().define(spec)
            spec.input('req', valid_type=int)
            spec.input('opt', valid_type=str, required=False)
            spec.input('dflt', valid_type=int, default=7)
            spec.input('cdflt', valid_type=list, default=lambda: [1, 2])
            # callable defaults that are not plain functions: a class, a partial, a bound method
            spec.input('kdflt', valid_type=list, default=list)
            spec.input('pdflt', valid_type=int, default=functools.partial(int, '5'))
            spec.input('mdflt', valid_type=str, default='abc'.upper)
            spec.input('pos', valid_type=int, required=False, validator=positive)
            spec.input('ns.a', valid_type=int)
            spec.input('ns.b', valid_type=int, default=3)
            spec.input_namespace('lazy', required=False, populate_defaults=False)
            spec.input('lazy.x', valid_type=int, default=9)
            spec.input('lazy.must', valid_type=int)
            spec.input_namespace('dyn', valid_type=int, dynamic=True, required=False)
            # a namespace created on the fly by its FIRST declared port, which is optional; a required port follows
            spec.input('late.opt', valid_type=int, required=False)
            spec.input('late.must', valid_type=int)

    MISSING = object()

    def reference(inp):
        """-> (accepted, completed inputs)"""
        if not isinstance(inp, dict):
            return False, None
        done = {}
        ok = True
        allowed = {'req', 'opt', 'dflt', 'cdflt', 'kdflt', 'pdflt', 'mdflt', 'pos', 'ns', 'lazy', 'dyn', 'late'}
        if set(inp) - allowed:
            ok = False

        def leaf(d, out, name, typ, required=True, default=MISSING, validator=None):
            nonlocal ok
            v = d.get(name, MISSING) if isinstance(d, dict) else MISSING
            if v is MISSING and default is not MISSING:
                v = default() if callable(default) else default
            if v is MISSING:
                if required:
                    ok = False
                return
            out[name] = v
            if not isinstance(v, typ) or isinstance(v, bool) and typ is int and False:
                ok = False
            elif validator is not None and validator(v, None) is not None:
                ok = False
        leaf(inp, done, 'req', int)
        leaf(inp, done, 'opt', str, required=False)
        leaf(inp, done, 'dflt', int, default=7)
        leaf(inp, done, 'cdflt', list, default=lambda: [1, 2])
        leaf(inp, done, 'kdflt', list, default=lambda: [])
        leaf(inp, done, 'pdflt', int, default=5)
        leaf(inp, done, 'mdflt', str, default='ABC')
        leaf(inp, done, 'pos', int, required=False, validator=positive)
        ns_in = inp.get('ns', {})
        if not isinstance(ns_in, dict):
            return False, None
        ns_out = {}
        if set(ns_in) - {'a', 'b'}:
            ok = False
        leaf(ns_in, ns_out, 'a', int)
        leaf(ns_in, ns_out, 'b', int, default=3)
        done['ns'] = ns_out
        late_in = inp.get('late', {})
        if not isinstance(late_in, dict):
            return False, None
        late_out = {}
        if set(late_in) - {'opt', 'must'}:
            ok = False
        leaf(late_in, late_out, 'opt', int, required=False)
        leaf(late_in, late_out, 'must', int)
        done['late'] = late_out
        if 'lazy' in inp:
            lz = inp['lazy']
            if not isinstance(lz, dict):
                return False, None
            lz_out = {}
            if set(lz) - {'x', 'must'}:
                ok = False
            leaf(lz, lz_out, 'x', int, default=9)
            leaf(lz, lz_out, 'must', int)
            done['lazy'] = lz_out
        if 'dyn' in inp:
            dy = inp['dyn']
            if not isinstance(dy, dict):
                return False, None

            def dyn_ok(d):
                return all(dyn_ok(v) if isinstance(v, dict) else isinstance(v, int) for v in d.values())
            if not dyn_ok(dy):
                ok = False
            done['dyn'] = copy.deepcopy(dy)
        return ok, done

    def plain(x):
        if isinstance(x, (dict, AttributesFrozendict)) or hasattr(x, 'items'):
            return {k: plain(v) for k, v in x.items()}
        return x

    base = {'req': 1, 'ns': {'a': 2}, 'late': {'must': 4}}
    variants = [
        {}, {'req': 'one'}, {'req': None}, {'opt': 'text'}, {'opt': 5}, {'dflt': 8}, {'dflt': 'eight'}, {'cdflt': [9]}, {'cdflt': (9,)},
        {'pos': 3}, {'pos': -3}, {'pos': 0}, {'ns': {'a': 2, 'b': 4}}, {'ns': {'a': 'two'}}, {'ns': {}}, {'ns': {'a': 2, 'zzz': 1}},
        {'extra': 1}, {'lazy': {'must': 1}}, {'lazy': {}}, {'lazy': {'must': 1, 'x': 2}}, {'lazy': {'x': 2}}, {'lazy': {'must': 'one'}},
        {'dyn': {'p': 1}}, {'dyn': {'p': 'one'}}, {'dyn': {'sub': {'q': 2}}}, {'dyn': {'sub': {'q': 'two'}}}, {'dyn': {'sub': {'deep': {'r': 'x'}}}},
        {'dyn': {}}, {'req': ()}, {'opt': ()}, {'ns': {'a': ()}},
        {'dyn': {'p': None}}, {'dyn': {'p': ''}}, {'dyn': {'p': 0.0}}, {'dyn': {'p': []}}, {'dyn': {'sub': {'q': None}}},
        {'dyn': {'p': 0}}, {'req': 0}, {'req': 0.0}, {'opt': ''}, {'ns': {'a': 0}}, {'ns': {'a': None}},
        {'kdflt': [3]}, {'pdflt': 6}, {'mdflt': 'given'}, {'pdflt': 'six'},
        # falsy values that are not mappings, given for a namespace
        {'ns': []}, {'ns': 0}, {'ns': ''}, {'lazy': []}, {'dyn': 0}, {'dyn': ''}, {'ns': False},
        {'late': {}}, {'late': {'opt': 1}}, {'late': {'opt': 1, 'must': 2}},
    ]
    drops = [(), ('req',), ('ns',), ('late',)]

    def main_sync():
        failures = []
        for var, drop in itertools.product(variants, drops):
            inp = copy.deepcopy(base)
            inp.update(copy.deepcopy(var))
            for d in drop:
                inp.pop(d, None)
            given = copy.deepcopy(inp)
            key = f'C11|{json.dumps(given, sort_keys=True, default=repr)}'
            want_ok, want = reference(given)
            try:
                proc = P(inputs=inp)
                got_ok = True
            except Exception as e:  # noqa
                got_ok = False
                err = e
            if inp != given:
                failures.append((key + '|caller-dict', f"the caller's dictionary was changed to {inp}"))
            if got_ok != want_ok:
                failures.append((key + ('|accepted' if got_ok else '|rejected'),
                                 f'inputs {given}: construction {"succeeded" if got_ok else "raised " + type(err).__name__}, the spec says {"accept" if want_ok else "reject"}'))
                continue
            if not got_ok:
                continue
            if plain(proc.inputs) != want:
                failures.append((key + '|completed', f'inputs {given}: process.inputs {plain(proc.inputs)}, expected {want}'))
            if plain(proc.raw_inputs) != given:
                failures.append((key + '|raw', f'inputs {given}: raw_inputs {plain(proc.raw_inputs)}'))
            # what the caller does to ITS dictionary afterwards must not show in the process
            inp['__later__'] = 1          # (top level only: nested dictionaries of the raw inputs are shared with the caller by design)
            if plain(proc.raw_inputs) != given or plain(proc.inputs) != want:
                failures.append((key + '|aliased', f'inputs {given}: after the caller edited its own dictionary the process reports raw_inputs '
                                                   f'{plain(proc.raw_inputs)} / inputs {plain(proc.inputs)}'))
            for path in ([], ['ns'], ['lazy'], ['dyn']):
                cur = proc.inputs
                try:
                    for p_ in path:
                        cur = cur[p_]
                except KeyError:
                    continue
                try:
                    cur['__probe__'] = 1
                    failures.append((key + '|mutable', f'inputs {given}: inputs{path} accepts item assignment ({type(cur).__name__})'))
                except TypeError:
                    pass
                except Exception:  # noqa
                    pass
        new = [(k, t) for k, t in failures if k not in known]
        for k in sorted({k for k, _ in failures if k in known}):
            print('KNOWN-HISTORY', k)
        if doc.get('list_all'):
            for k, t in failures:
                print('FAIL', k, '::', t)
        if new:
            return '; '.join(f'{t}' for k, t in new[:3]) + (f' (+{len(new) - 3} more)' if len(new) > 3 else '')
        return None

    return main_sync()
