# -*- coding: utf-8 -*-
"""Replay recipes: build the counter-model's inputs with the real classes, run the real function, evaluate the violated
clause natively.  Each recipe returns a non-empty description if the violation is reproduced, else a falsy value."""
import asyncio
import json

from run import Obj, to_py


def _plain(v):
    """model value -> something usable as an argument (unknown objects become sentinels)"""
    if isinstance(v, Obj):
        return ('obj', v.cls)
    if isinstance(v, tuple) and len(v) == 2 and v[0] in ('const', 'class', 'function'):
        return v
    return v


def _inputs(doc):
    cx = doc.get('counterexample') or {}
    return {k: to_py(v) for k, v in (cx.get('inputs') or {}).items()}


def _dummy_process():
    import plumpy

    class _P(plumpy.Process):
        def run(self):
            return None

        def nxt(self, *a, **k):
            return (a, k)

    return _P()


# ---------------------------------------------------------------------------------------------------- C13
def action_command(doc):
    """Running._action_command(command): command built from the counter-model (class + payload); the clauses of the
    contract are evaluated on the real result."""
    import plumpy
    from plumpy import process_states as ps

    inp = _inputs(doc)
    cmd = inp.get('command')
    if not isinstance(cmd, Obj):
        return None
    proc = _dummy_process()
    state = ps.Running(proc, proc.run)
    f = cmd.fields
    name = cmd.cls.rsplit('.', 1)[-1]
    if name == 'Continue':
        args = f.get('args')
        args = tuple(_plain(x) for x in args) if isinstance(args, (tuple, list)) else ()
        kwargs = f.get('kwargs')
        kwargs = {str(k): _plain(v) for k, v in kwargs.items() if isinstance(k, str)} if isinstance(kwargs, dict) else {}
        fn = proc.nxt
        command = ps.Continue(fn, *args, **kwargs)
        res = state._action_command(command)
        bad = []
        if not isinstance(res, ps.Running):
            bad.append(f'result is {type(res).__name__}')
        else:
            if tuple(res.args) != tuple(command.args):
                bad.append(f'args {res.args!r} != {command.args!r}')
            if dict(res.kwargs) != dict(command.kwargs):
                bad.append(f'kwargs {res.kwargs!r} != {command.kwargs!r} for Continue(f, *{args!r}, **{kwargs!r})')
        return '; '.join(bad)
    if name == 'Wait':
        command = ps.Wait(proc.nxt, _plain(f.get('msg')), _plain(f.get('data')))
        res = state._action_command(command)
        ok = isinstance(res, ps.Waiting) and res.done_callback == command.continue_fn and res.msg == command.msg and res.data == command.data
        return None if ok else f'Wait mapped to {res!r}'
    if name == 'Stop':
        command = ps.Stop(_plain(f.get('result')), bool(f.get('successful')))
        res = state._action_command(command)
        ok = isinstance(res, ps.Finished) and res.result == command.result and res.successful == command.successful
        return None if ok else f'Stop mapped to {res!r}'
    if name == 'Kill':
        command = ps.Kill(_plain(f.get('msg')))
        res = state._action_command(command)
        ok = isinstance(res, ps.Killed) and res.msg == command.msg
        return None if ok else f'Kill mapped to {res!r}'
    return None


def waiting_resume(doc):
    """Waiting.resume(value) on a freshly armed waiting state: the first resume must record exactly `value`"""
    from plumpy import process_states as ps
    from plumpy.lang import NULL

    inp = _inputs(doc)
    proc = _dummy_process()
    bad = []
    cands = [_plain(inp.get('value'))] if 'value' in inp else []
    for value in cands + [None, 0, '', NULL]:
        st = ps.Waiting(proc, proc.nxt)
        st.resume(value)
        got = st._waiting_future.result()
        if got is not value and not (value is NULL and got == NULL):
            bad.append(f'resume({value!r}) recorded {got!r}')
            break
    return '; '.join(bad)


# ---------------------------------------------------------------------------------------------------- C19
def custom_meta_roundtrip(doc):
    """get_custom_meta(s, n) after set_custom_meta(s, n, v), on the saved-state mapping of the counter-model"""
    from plumpy.persistence import Savable

    inp = _inputs(doc)
    name = inp.get('name') if isinstance(inp.get('name'), str) else 'object_loader'
    state = inp.get('saved_state', inp.get('out_state'))
    state = state if isinstance(state, dict) else {}
    state = {k: v for k, v in state.items() if isinstance(k, str)}
    if not isinstance(state.get('!!meta', {}), dict):
        state.pop('!!meta')
    value = _plain(inp.get('value', 'the-recorded-value'))
    Savable.set_custom_meta(state, name, value)
    try:
        got = Savable.get_custom_meta(state, name)
    except ValueError as e:
        return f'set_custom_meta(s, {name!r}, {value!r}) then get_custom_meta(s, {name!r}) raised ValueError({e}); s = {state!r}'
    if got != value:
        return f'get_custom_meta returned {got!r}, recorded {value!r}'
    return None
